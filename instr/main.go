// Command instr rewrites a scratch copy of a Go module in place so that every
// source of nondeterminism and every file-system call goes through knutsim/simrt.
// Rules R1-R7 of DESIGN.md. It never guesses: a construct it cannot rewrite
// soundly is reported and the exit status is 2.
package main

import (
	"bytes"
	"fmt"
	"go/ast"
	"go/format"
	"go/token"
	"go/types"
	"os"
	"path/filepath"
	"sort"
	"strconv"
	"strings"

	"golang.org/x/tools/go/ast/astutil"
	"golang.org/x/tools/go/packages"
)

var failures []string

func fail(fset *token.FileSet, pos token.Pos, msg string) {
	failures = append(failures, fmt.Sprintf("%s: %s", fset.Position(pos), msg))
}

type stats struct {
	mapRange, chanRange, selects, sends, recvs, closes, goStmts, goCalls, iterMaps, locks, fsCalls, exits, stdio, prints int
}

var st stats

func main() {
	if len(os.Args) < 2 {
		fmt.Fprintln(os.Stderr, "usage: instr <module dir>")
		os.Exit(2)
	}
	dir, _ := filepath.Abs(os.Args[1])
	detectLoopVarSemantics(dir)
	cfg := &packages.Config{
		Mode: packages.NeedName | packages.NeedFiles | packages.NeedCompiledGoFiles | packages.NeedSyntax |
			packages.NeedTypes | packages.NeedTypesInfo | packages.NeedImports | packages.NeedDeps,
		Dir: dir,
	}
	pkgs, err := packages.Load(cfg, "./...")
	if err != nil {
		fmt.Fprintln(os.Stderr, "instrumentation failed: load:", err)
		os.Exit(2)
	}
	bad := false
	for _, p := range pkgs {
		for _, e := range p.Errors {
			fmt.Fprintln(os.Stderr, "instrumentation failed: package error:", e)
			bad = true
		}
	}
	if bad {
		os.Exit(2)
	}
	nfiles := 0
	for _, p := range pkgs {
		for i, f := range p.Syntax {
			name := p.CompiledGoFiles[i]
			if !strings.HasPrefix(name, dir) || strings.HasSuffix(name, "_test.go") {
				continue
			}
			rel, _ := filepath.Rel(dir, name)
			r := &rewriter{fset: p.Fset, info: p.TypesInfo, file: f, rel: rel, pkg: p.Types}
			if r.run() {
				var buf bytes.Buffer
				if err := format.Node(&buf, p.Fset, f); err != nil {
					fail(p.Fset, f.Pos(), "print: "+err.Error())
					continue
				}
				if err := os.WriteFile(name, buf.Bytes(), 0o644); err != nil {
					fmt.Fprintln(os.Stderr, "instrumentation failed:", err)
					os.Exit(2)
				}
				nfiles++
			}
		}
	}
	if len(failures) > 0 {
		sort.Strings(failures)
		for _, f := range failures {
			fmt.Fprintln(os.Stderr, "instrumentation failed:", f)
		}
		os.Exit(2)
	}
	fmt.Printf("instr: %d files rewritten: %+v\n", nfiles, st)
}

type rewriter struct {
	fset     *token.FileSet
	info     *types.Info
	file     *ast.File
	pkg      *types.Package
	rel      string
	changed  bool
	tmp      int
	commRecv map[ast.Node]bool // receive expressions that are the Comm of a select clause
	okRecv   map[ast.Node]bool // receive expressions in a two-value context
	labeled  map[ast.Node]bool // statements that carry a label
}

func (r *rewriter) site(pos token.Pos) ast.Expr {
	p := r.fset.Position(pos)
	return &ast.BasicLit{Kind: token.STRING, Value: strconv.Quote(r.rel + ":" + strconv.Itoa(p.Line))}
}

func (r *rewriter) name(prefix string) string {
	r.tmp++
	return fmt.Sprintf("__%s%d", prefix, r.tmp)
}

func sim(name string) ast.Expr {
	return &ast.SelectorExpr{X: ast.NewIdent("simrt"), Sel: ast.NewIdent(name)}
}

func call(fun ast.Expr, args ...ast.Expr) *ast.CallExpr {
	return &ast.CallExpr{Fun: fun, Args: args}
}

func (r *rewriter) pkgOf(x ast.Expr) string {
	id, ok := x.(*ast.Ident)
	if !ok {
		return ""
	}
	if pn, ok := r.info.Uses[id].(*types.PkgName); ok {
		return pn.Imported().Path()
	}
	return ""
}

func isMap(t types.Type) bool {
	if t == nil {
		return false
	}
	_, ok := t.Underlying().(*types.Map)
	return ok
}

func isChan(t types.Type) bool {
	if t == nil {
		return false
	}
	_, ok := t.Underlying().(*types.Chan)
	return ok
}

func isWaitGroup(t types.Type) bool {
	if p, ok := t.(*types.Pointer); ok {
		t = p.Elem()
	}
	n, ok := t.(*types.Named)
	return ok && n.Obj().Pkg() != nil && n.Obj().Pkg().Path() == "sync" && n.Obj().Name() == "WaitGroup"
}

func mutexKind(t types.Type) string {
	if p, ok := t.(*types.Pointer); ok {
		t = p.Elem()
	}
	n, ok := t.(*types.Named)
	if !ok || n.Obj().Pkg() == nil || n.Obj().Pkg().Path() != "sync" {
		return ""
	}
	switch n.Obj().Name() {
	case "Mutex", "RWMutex":
		return n.Obj().Name()
	}
	return ""
}

var fsFuncs = map[string]bool{
	"ReadFile": true, "Open": true, "OpenFile": true, "Create": true, "WriteFile": true, "CreateTemp": true,
	"Stat": true, "Lstat": true, "Chmod": true, "Rename": true, "Remove": true, "MkdirAll": true, "Readlink": true, "Symlink": true,
	"SameFile": true, "DirFS": true,
}

// os functions that touch the file system or process state and that the
// simulator does not model: their use is an instrumentation failure.
var osUnsupported = map[string]bool{
	"Mkdir": true, "ReadDir": true, "Link": true, "Truncate": true, "RemoveAll": true,
	"Chown": true, "Chtimes": true, "MkdirTemp": true, "NewFile": true,
	"Chdir": true, "Pipe": true, "StartProcess": true, "Lchown": true, "CopyFS": true,
}

func (r *rewriter) run() bool {
	r.commRecv = map[ast.Node]bool{}
	r.okRecv = map[ast.Node]bool{}
	r.labeled = map[ast.Node]bool{}
	ast.Inspect(r.file, func(n ast.Node) bool {
		switch v := n.(type) {
		case *ast.CommClause:
			switch c := v.Comm.(type) {
			case *ast.ExprStmt:
				r.commRecv[ast.Unparen(c.X)] = true
			case *ast.AssignStmt:
				if len(c.Rhs) == 1 {
					r.commRecv[ast.Unparen(c.Rhs[0])] = true
				}
			}
		case *ast.AssignStmt:
			if len(v.Lhs) == 2 && len(v.Rhs) == 1 {
				if u, ok := ast.Unparen(v.Rhs[0]).(*ast.UnaryExpr); ok && u.Op == token.ARROW {
					r.okRecv[u] = true
				}
			}
		case *ast.ValueSpec:
			if len(v.Names) == 2 && len(v.Values) == 1 {
				if u, ok := ast.Unparen(v.Values[0]).(*ast.UnaryExpr); ok && u.Op == token.ARROW {
					r.okRecv[u] = true
				}
			}
		case *ast.LabeledStmt:
			r.labeled[v.Stmt] = true
		}
		return true
	})
	astutil.Apply(r.file, nil, r.post)
	if r.changed {
		astutil.AddNamedImport(r.fset, r.file, "simrt", "knutsim/simrt")
		r.dropUnusedImports()
		// comments would be re-attached by position and can end up inside
		// rewritten code; keep only those before the package clause.
		var keep []*ast.CommentGroup
		for _, cg := range r.file.Comments {
			if cg.End() < r.file.Package {
				keep = append(keep, cg)
			}
		}
		r.file.Comments = keep
	}
	return r.changed
}

func (r *rewriter) dropUnusedImports() {
	used := map[string]bool{}
	ast.Inspect(r.file, func(n ast.Node) bool {
		if s, ok := n.(*ast.SelectorExpr); ok {
			if id, ok := s.X.(*ast.Ident); ok {
				used[id.Name] = true
			}
		}
		return true
	})
	for _, imp := range append([]*ast.ImportSpec(nil), r.file.Imports...) {
		path, _ := strconv.Unquote(imp.Path.Value)
		name := ""
		if imp.Name != nil {
			name = imp.Name.Name
			if name == "_" || name == "." {
				continue
			}
		} else {
			// only the packages we may have emptied
			switch path {
			case "os", "io/ioutil", "log", "fmt", "sync", "runtime":
				name = filepath.Base(path)
			case "runtime/pprof":
				name = filepath.Base(path)
			default:
				continue
			}
		}
		if !used[name] {
			if imp.Name != nil {
				astutil.DeleteNamedImport(r.fset, r.file, imp.Name.Name, path)
			} else {
				astutil.DeleteImport(r.fset, r.file, path)
			}
		}
	}
}

func (r *rewriter) post(c *astutil.Cursor) bool {
	switch n := c.Node().(type) {
	case *ast.RangeStmt:
		t := r.info.TypeOf(n.X)
		if _, ok := t.(*types.TypeParam); ok {
			fail(r.fset, n.Pos(), "range over a type-parameter typed value is not supported")
			return true
		}
		if isMap(t) {
			r.rewriteMapRange(c, n)
		} else if isChan(t) {
			r.rewriteChanRange(c, n)
		}
	case *ast.SelectStmt:
		r.rewriteSelect(c, n)
	case *ast.SendStmt:
		if _, ok := c.Parent().(*ast.CommClause); ok && c.Name() == "Comm" {
			return true
		}
		st.sends++
		r.changed = true
		c.Replace(&ast.ExprStmt{X: call(sim("Send"), r.site(n.Pos()), n.Chan, n.Value)})
	case *ast.UnaryExpr:
		if n.Op != token.ARROW || r.commRecv[n] {
			return true
		}
		st.recvs++
		r.changed = true
		if r.okRecv[n] {
			c.Replace(call(sim("RecvOk"), r.site(n.Pos()), n.X))
		} else {
			c.Replace(call(sim("Recv"), r.site(n.Pos()), n.X))
		}
	case *ast.GoStmt:
		if id, ok := n.Call.Fun.(*ast.Ident); ok {
			if _, isBuiltin := r.info.Uses[id].(*types.Builtin); isBuiltin {
				fail(r.fset, n.Pos(), "go statement on a builtin")
				return true
			}
		}
		if s, ok := n.Call.Fun.(*ast.SelectorExpr); ok {
			if id, ok := s.X.(*ast.Ident); ok && id.Name == "simrt" {
				// already rewritten call (e.g. go close(ch) is rejected above)
				return true
			}
		}
		st.goStmts++
		r.changed = true
		n.Call.Fun = call(sim("Task"), r.site(n.Pos()), n.Call.Fun)
	case *ast.CallExpr:
		r.rewriteCall(c, n)
	case *ast.SelectorExpr:
		r.rewriteSelector(c, n)
	}
	return true
}

func (r *rewriter) rewriteSelector(c *astutil.Cursor, n *ast.SelectorExpr) {
	if selection := r.info.Selections[n]; selection != nil && selection.Kind() == types.MethodVal {
		if fn, _ := selection.Obj().(*types.Func); fn != nil && fn.Pkg() != nil && fn.Pkg().Path() == "sync" {
			if pc, ok := c.Parent().(*ast.CallExpr); !(ok && pc.Fun == ast.Expr(n)) {
				// a method value of a sync type
				if isWaitGroup(selection.Recv()) && n.Sel.Name == "Wait" && len(selection.Index()) == 1 {
					var arg ast.Expr = n.X
					if _, isPtr := selection.Recv().(*types.Pointer); !isPtr {
						arg = &ast.UnaryExpr{Op: token.AND, X: n.X}
					}
					r.changed = true
					st.locks++
					c.Replace(&ast.FuncLit{
						Type: &ast.FuncType{Params: &ast.FieldList{}},
						Body: &ast.BlockStmt{List: []ast.Stmt{&ast.ExprStmt{X: call(sim("WGWait"), r.site(n.Pos()), arg)}}},
					})
					return
				}
				fail(r.fset, n.Pos(), "method value of a sync type is not supported")
				return
			}
		}
	}
	if r.pkgOf(n.X) == "sync" {
		switch n.Sel.Name {
		case "Pool":
			// a deterministic free list instead of per-P caches
			r.changed = true
			c.Replace(sim("Pool"))
			return
		case "Map":
			// a plain map whose operations are scheduling points (simrt.SyncMap)
			r.changed = true
			c.Replace(sim("SyncMap"))
			return
		case "Cond", "NewCond":
			fail(r.fset, n.Pos(), "sync."+n.Sel.Name+" is not modelled by the scheduler")
			return
		}
	}
	switch r.pkgOf(n.X) {
	case "github.com/sourcegraph/conc/iter":
		switch n.Sel.Name {
		case "Iterator", "Mapper":
			// a configured iterator starts its goroutines inside the library, where the
			// scheduler does not see them
			fail(r.fset, n.Pos(), "conc/iter."+n.Sel.Name+" is not supported by the simulator")
		}
		return
	case "golang.org/x/sys/unix":
		fail(r.fset, n.Pos(), "golang.org/x/sys/unix."+n.Sel.Name+": raw system calls bypass simfs and are not modelled")
		return
	case "syscall":
		if rawSyscalls[n.Sel.Name] {
			fail(r.fset, n.Pos(), "syscall."+n.Sel.Name+": raw system calls bypass simfs and are not modelled")
		}
		return
	case "runtime/pprof":
		switch n.Sel.Name {
		case "StartCPUProfile", "StopCPUProfile":
			// the profiler's goroutine and signals do not belong in a simulation
			r.changed = true
			c.Replace(sim(n.Sel.Name))
		}
		return
	case "runtime":
		switch n.Sel.Name {
		case "GOMAXPROCS", "NumCPU":
			// the degree of parallelism is a knob of the simulated run
			r.changed = true
			c.Replace(sim(n.Sel.Name))
		}
		return
	case "os":
		name := n.Sel.Name
		switch {
		case fsFuncs[name]:
			st.fsCalls++
		case name == "Exit":
			st.exits++
		case name == "Stdout" || name == "Stderr":
			// left alone: the harness swaps the os.Stdout/os.Stderr variables per run,
			// which also captures what uninstrumented libraries (cobra) print
			return
		case name == "File":
			st.fsCalls++
		case name == "Stdin":
			// standard input of a simulated run is empty (as with </dev/null)
			st.fsCalls++
			r.changed = true
			c.Replace(call(sim("StdinFile")))
			return
		case osUnsupported[name]:
			fail(r.fset, n.Pos(), "os."+name+" is not modelled by simfs")
			return
		default:
			return
		}
		r.changed = true
		c.Replace(sim(name))
	case "io/ioutil":
		switch n.Sel.Name {
		case "TempFile", "ReadFile", "WriteFile":
			st.fsCalls++
			r.changed = true
			c.Replace(sim(n.Sel.Name))
		case "ReadDir", "TempDir":
			fail(r.fset, n.Pos(), "ioutil."+n.Sel.Name+" is not modelled by simfs")
		}
	}
}

func (r *rewriter) rewriteCall(c *astutil.Cursor, n *ast.CallExpr) {
	// builtin close
	if id, ok := n.Fun.(*ast.Ident); ok && id.Name == "close" && len(n.Args) == 1 {
		if _, isBuiltin := r.info.Uses[id].(*types.Builtin); isBuiltin {
			st.closes++
			r.changed = true
			c.Replace(call(sim("Close"), r.site(n.Pos()), n.Args[0]))
			return
		}
	}
	// cmd.OutOrStdout(): the writer a command prints its report to becomes a fault point
	if sel, ok := n.Fun.(*ast.SelectorExpr); ok && sel.Sel.Name == "OutOrStdout" && len(n.Args) == 0 {
		if selection := r.info.Selections[sel]; selection != nil && selection.Kind() == types.MethodVal {
			if fn, _ := selection.Obj().(*types.Func); fn != nil && fn.Pkg() != nil && fn.Pkg().Path() == "github.com/spf13/cobra" {
				r.changed = true
				c.Replace(call(sim("WrapStdout"), n))
				return
			}
		}
	}
	sel, ok := n.Fun.(*ast.SelectorExpr)
	if !ok {
		// iter.Map[T,R](...) with explicit instantiation
		if ix, ok := n.Fun.(*ast.IndexListExpr); ok {
			if s2, ok := ix.X.(*ast.SelectorExpr); ok && r.pkgOf(s2.X) == "github.com/sourcegraph/conc/iter" {
				fail(r.fset, n.Pos(), "explicitly instantiated conc/iter call is not supported")
			}
		}
		return
	}
	switch r.pkgOf(sel.X) {
	case "log":
		switch sel.Sel.Name {
		case "Fatal", "Fatalf", "Fatalln", "Panic", "Panicf", "Panicln", "Print", "Printf", "Println":
			st.prints++
			r.changed = true
			n.Fun = sim("Log" + sel.Sel.Name)
		}
		return
	case "github.com/sourcegraph/conc/iter":
		switch sel.Sel.Name {
		case "Map":
			if len(n.Args) == 2 {
				st.iterMaps++
				r.changed = true
				c.Replace(call(sim("IterMap"), r.site(n.Pos()), n.Args[0], n.Args[1], sel))
				return
			}
		case "ForEach":
			if len(n.Args) == 2 {
				st.iterMaps++
				r.changed = true
				c.Replace(call(sim("IterForEach"), r.site(n.Pos()), n.Args[0], n.Args[1], sel))
				return
			}
		case "MapErr":
			if len(n.Args) == 2 {
				st.iterMaps++
				r.changed = true
				c.Replace(call(sim("IterMapErr"), r.site(n.Pos()), n.Args[0], n.Args[1], sel))
				return
			}
		case "ForEachIdx":
			if len(n.Args) == 2 {
				st.iterMaps++
				r.changed = true
				c.Replace(call(sim("IterForEachIdx"), r.site(n.Pos()), n.Args[0], n.Args[1], sel))
				return
			}
		}
		fail(r.fset, n.Pos(), "conc/iter."+sel.Sel.Name+" is not supported by the simulator")
		return
	case "":
	default:
		return
	}
	// method calls
	selection := r.info.Selections[sel]
	if selection == nil || selection.Kind() != types.MethodVal {
		return
	}
	recvT := selection.Recv()
	switch sel.Sel.Name {
	case "Lock", "Unlock", "RLock", "RUnlock":
		fn, _ := selection.Obj().(*types.Func)
		if fn == nil || fn.Pkg() == nil || fn.Pkg().Path() != "sync" {
			return
		}
		if len(selection.Index()) != 1 {
			fail(r.fset, n.Pos(), "call of a promoted mutex method (embedded sync.Mutex) is not supported")
			return
		}
		if mutexKind(recvT) == "" {
			return
		}
		st.locks++
		r.changed = true
		var arg ast.Expr = sel.X
		if _, isPtr := recvT.(*types.Pointer); !isPtr {
			arg = &ast.UnaryExpr{Op: token.AND, X: sel.X}
		}
		c.Replace(call(sim(sel.Sel.Name), r.site(n.Pos()), arg))
	case "Add", "Done", "Wait":
		fn, _ := selection.Obj().(*types.Func)
		if fn == nil || fn.Pkg() == nil || fn.Pkg().Path() != "sync" || !isWaitGroup(recvT) {
			return
		}
		if len(selection.Index()) != 1 {
			fail(r.fset, n.Pos(), "call of a promoted WaitGroup method is not supported")
			return
		}
		st.locks++
		r.changed = true
		var arg ast.Expr = sel.X
		if _, isPtr := recvT.(*types.Pointer); !isPtr {
			arg = &ast.UnaryExpr{Op: token.AND, X: sel.X}
		}
		c.Replace(call(sim("WG"+sel.Sel.Name), append([]ast.Expr{r.site(n.Pos()), arg}, n.Args...)...))
	case "Go", "TryGo":
		if len(n.Args) != 1 {
			return
		}
		fn, _ := selection.Obj().(*types.Func)
		if fn == nil || fn.Pkg() == nil {
			return
		}
		p := fn.Pkg().Path()
		if !(strings.HasPrefix(p, "github.com/sourcegraph/conc") || p == "golang.org/x/sync/errgroup" || p == "sync") {
			return
		}
		if _, ok := r.info.TypeOf(n.Args[0]).Underlying().(*types.Signature); !ok {
			return
		}
		st.goCalls++
		r.changed = true
		n.Args[0] = call(sim("Task"), r.site(n.Pos()), n.Args[0])
	}
}

// file-system and process calls of package syscall that would act on the real
// system instead of the simulated one (constants, Errno and signal names are fine)
var rawSyscalls = map[string]bool{"Open": true, "Openat": true, "Creat": true, "Read": true, "Write": true, "Pread": true, "Pwrite": true,
	"Close": true, "Fsync": true, "Fdatasync": true, "Rename": true, "Renameat": true, "Unlink": true, "Unlinkat": true, "Link": true,
	"Symlink": true, "Mkdir": true, "Rmdir": true, "Ftruncate": true, "Truncate": true, "Chmod": true, "Fchmod": true, "Stat": true,
	"Lstat": true, "Fstat": true, "Syscall": true, "Syscall6": true, "RawSyscall": true, "RawSyscall6": true, "Mmap": true, "Dup": true,
	"Dup2": true, "Kill": true, "Exec": true, "ForkExec": true, "Setrlimit": true, "Flock": true, "Sendfile": true}

// sharedLoopVars: the module's go.mod says go < 1.22 (or nothing), so the variables of a
// `for ... := range` statement are shared by all iterations. The rewritten loops must keep that:
// a closure that captures the variable and runs late sees a later element, and such a bug
// must stay visible to the simulation.
var sharedLoopVars = true

func detectLoopVarSemantics(dir string) {
	b, err := os.ReadFile(filepath.Join(dir, "go.mod"))
	if err != nil {
		return
	}
	for _, l := range strings.Split(string(b), "\n") {
		f := strings.Fields(l)
		if len(f) == 2 && f[0] == "go" {
			var maj, min int
			fmt.Sscanf(f[1], "%d.%d", &maj, &min)
			sharedLoopVars = maj < 1 || (maj == 1 && min < 22)
		}
	}
}

func define(name string, x ast.Expr) ast.Stmt {
	return &ast.AssignStmt{Lhs: []ast.Expr{ast.NewIdent(name)}, Tok: token.DEFINE, Rhs: []ast.Expr{x}}
}

func (r *rewriter) rewriteMapRange(c *astutil.Cursor, n *ast.RangeStmt) {
	st.mapRange++
	r.changed = true
	e := r.name("e")
	var pre []ast.Stmt
	blank := func(x ast.Expr) bool {
		if x == nil {
			return true
		}
		id, ok := x.(*ast.Ident)
		return ok && id.Name == "_"
	}
	tok := n.Tok
	if tok == token.ILLEGAL {
		tok = token.DEFINE
	}
	// one set of iteration variables for all iterations (go < 1.22): declared once, outside the
	// loop, with the map's key and value types; { m := X; k, v := MapZero(m); for ... { k = ...; v, ok = ... } }
	var outer []ast.Stmt
	if sharedLoopVars && n.Tok == token.DEFINE && !r.labeled[n] && (!blank(n.Key) || !blank(n.Value)) {
		mName := r.name("m")
		lk, lv := ast.Expr(ast.NewIdent("_")), ast.Expr(ast.NewIdent("_"))
		if !blank(n.Key) {
			lk = ast.NewIdent(n.Key.(*ast.Ident).Name)
		}
		if !blank(n.Value) {
			lv = ast.NewIdent(n.Value.(*ast.Ident).Name)
		}
		outer = []ast.Stmt{
			define(mName, n.X),
			&ast.AssignStmt{Lhs: []ast.Expr{lk, lv}, Tok: token.DEFINE, Rhs: []ast.Expr{call(sim("MapZero"), ast.NewIdent(mName))}},
		}
		n.X = ast.NewIdent(mName)
		tok = token.ASSIGN
	}
	if !blank(n.Key) {
		pre = append(pre, &ast.AssignStmt{Lhs: []ast.Expr{n.Key}, Tok: tok, Rhs: []ast.Expr{&ast.SelectorExpr{X: ast.NewIdent(e), Sel: ast.NewIdent("K")}}})
	}
	okName := r.name("ok")
	valCall := call(&ast.SelectorExpr{X: ast.NewIdent(e), Sel: ast.NewIdent("Val")})
	if !blank(n.Value) {
		if tok == token.DEFINE {
			pre = append(pre, &ast.AssignStmt{Lhs: []ast.Expr{n.Value, ast.NewIdent(okName)}, Tok: token.DEFINE, Rhs: []ast.Expr{valCall}})
		} else {
			pre = append(pre,
				&ast.DeclStmt{Decl: &ast.GenDecl{Tok: token.VAR, Specs: []ast.Spec{&ast.ValueSpec{Names: []*ast.Ident{ast.NewIdent(okName)}, Type: ast.NewIdent("bool")}}}},
				&ast.AssignStmt{Lhs: []ast.Expr{n.Value, ast.NewIdent(okName)}, Tok: token.ASSIGN, Rhs: []ast.Expr{valCall}})
		}
	} else {
		pre = append(pre, &ast.AssignStmt{Lhs: []ast.Expr{ast.NewIdent("_"), ast.NewIdent(okName)}, Tok: token.DEFINE, Rhs: []ast.Expr{valCall}})
	}
	pre = append(pre, &ast.IfStmt{
		Cond: &ast.UnaryExpr{Op: token.NOT, X: ast.NewIdent(okName)},
		Body: &ast.BlockStmt{List: []ast.Stmt{&ast.BranchStmt{Tok: token.CONTINUE}}},
	})
	// the key must be assigned only for entries that are still present
	if !blank(n.Key) {
		// order: ok test first, then key and value visible in the body
		keyAssign := pre[0]
		pre = append(pre[1:], keyAssign)
	}
	n.Body.List = append(pre, n.Body.List...)
	n.Key = ast.NewIdent("_")
	n.Value = ast.NewIdent(e)
	n.Tok = token.DEFINE
	n.X = call(sim("MapRange"), r.site(n.Pos()), n.X)
	if outer != nil {
		c.Replace(&ast.BlockStmt{List: append(outer, n)})
	}
}

func (r *rewriter) rewriteChanRange(c *astutil.Cursor, n *ast.RangeStmt) {
	if r.labeled[n] {
		fail(r.fset, n.Pos(), "labeled range over a channel is not supported")
		return
	}
	st.chanRange++
	r.changed = true
	chName, vName, okName := r.name("ch"), r.name("v"), r.name("ok")
	var body []ast.Stmt
	lhs0 := ast.NewIdent("_")
	hasKey := n.Key != nil
	if id, ok := n.Key.(*ast.Ident); ok && id.Name == "_" {
		hasKey = false
	}
	if hasKey && n.Tok == token.DEFINE && sharedLoopVars {
		// one variable for all iterations:
		// { ch := X; v, ok := RecvOk(ch); for ; ok; v, ok = RecvOk(ch) { body } }
		recv := func() ast.Expr { return call(sim("RecvOk"), r.site(n.Pos()), ast.NewIdent(chName)) }
		keyName := n.Key.(*ast.Ident).Name
		c.Replace(&ast.BlockStmt{List: []ast.Stmt{
			define(chName, n.X),
			&ast.AssignStmt{Lhs: []ast.Expr{ast.NewIdent(keyName), ast.NewIdent(okName)}, Tok: token.DEFINE, Rhs: []ast.Expr{recv()}},
			&ast.ForStmt{
				Cond: ast.NewIdent(okName),
				Post: &ast.AssignStmt{Lhs: []ast.Expr{ast.NewIdent(keyName), ast.NewIdent(okName)}, Tok: token.ASSIGN, Rhs: []ast.Expr{recv()}},
				Body: n.Body,
			},
		}})
		return
	}
	if hasKey {
		lhs0 = ast.NewIdent(vName)
	}
	body = append(body, &ast.AssignStmt{
		Lhs: []ast.Expr{lhs0, ast.NewIdent(okName)}, Tok: token.DEFINE,
		Rhs: []ast.Expr{call(sim("RecvOk"), r.site(n.Pos()), ast.NewIdent(chName))},
	})
	body = append(body, &ast.IfStmt{
		Cond: &ast.UnaryExpr{Op: token.NOT, X: ast.NewIdent(okName)},
		Body: &ast.BlockStmt{List: []ast.Stmt{&ast.BranchStmt{Tok: token.BREAK}}},
	})
	if hasKey {
		tok := n.Tok
		if tok == token.ILLEGAL {
			tok = token.DEFINE
		}
		body = append(body, &ast.AssignStmt{Lhs: []ast.Expr{n.Key}, Tok: tok, Rhs: []ast.Expr{ast.NewIdent(vName)}})
	}
	body = append(body, n.Body.List...)
	c.Replace(&ast.BlockStmt{List: []ast.Stmt{
		define(chName, n.X),
		&ast.ForStmt{Body: &ast.BlockStmt{List: body}},
	}})
}

func (r *rewriter) rewriteSelect(c *astutil.Cursor, n *ast.SelectStmt) {
	if r.labeled[n] {
		fail(r.fset, n.Pos(), "labeled select is not supported")
		return
	}
	st.selects++
	r.changed = true
	hasDefault := false
	var pre []ast.Stmt
	var cases []ast.Expr
	type cl struct {
		clause *ast.CommClause
		idx    int
	}
	var comm []cl
	var origClauses []ast.Stmt
	k := 0
	for _, s := range n.Body.List {
		cc := s.(*ast.CommClause)
		if cc.Comm == nil {
			hasDefault = true
			origClauses = append(origClauses, cc)
			continue
		}
		chName := r.name("c")
		var chExpr *ast.Expr
		isSend := false
		switch cm := cc.Comm.(type) {
		case *ast.SendStmt:
			chExpr = &cm.Chan
			isSend = true
		case *ast.ExprStmt:
			u := ast.Unparen(cm.X).(*ast.UnaryExpr)
			chExpr = &u.X
		case *ast.AssignStmt:
			u := ast.Unparen(cm.Rhs[0]).(*ast.UnaryExpr)
			chExpr = &u.X
		}
		pre = append(pre, define(chName, *chExpr))
		*chExpr = ast.NewIdent(chName)
		if isSend {
			cases = append(cases, call(sim("SendCase"), ast.NewIdent(chName)))
		} else {
			cases = append(cases, call(sim("RecvCase"), ast.NewIdent(chName)))
		}
		comm = append(comm, cl{cc, k})
		k++
		origClauses = append(origClauses, cc)
	}
	h := r.name("h")
	hd := "false"
	if hasDefault {
		hd = "true"
	}
	args := append([]ast.Expr{r.site(n.Pos()), ast.NewIdent(hd)}, cases...)
	var swCases []ast.Stmt
	for _, cm := range comm {
		// a copy of the clause with h.Done() as the first body statement
		done := &ast.ExprStmt{X: call(&ast.SelectorExpr{X: ast.NewIdent(h), Sel: ast.NewIdent("Done")})}
		inner := &ast.CommClause{Comm: cm.clause.Comm, Body: append([]ast.Stmt{done}, cm.clause.Body...)}
		swCases = append(swCases, &ast.CaseClause{
			List: []ast.Expr{&ast.BasicLit{Kind: token.INT, Value: strconv.Itoa(cm.idx)}},
			Body: []ast.Stmt{&ast.SelectStmt{Body: &ast.BlockStmt{List: []ast.Stmt{inner}}}},
		})
	}
	swCases = append(swCases, &ast.CaseClause{
		List: nil,
		Body: []ast.Stmt{&ast.SelectStmt{Body: &ast.BlockStmt{List: origClauses}}},
	})
	sw := &ast.SwitchStmt{
		Init: define(h, call(sim("Choose"), args...)),
		Tag:  &ast.SelectorExpr{X: ast.NewIdent(h), Sel: ast.NewIdent("Index")},
		Body: &ast.BlockStmt{List: swCases},
	}
	c.Replace(&ast.BlockStmt{List: append(pre, sw)})
}
