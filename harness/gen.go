package harness

import (
	"fmt"
	"path"
	"sort"
	"strings"
	"time"

	"knutsim/simrt"
)

// GenCfg steers the journal generator G.
type GenCfg struct {
	MaxAcc, MaxCom, MaxTxn int
	MaxSpan                int
	PAccrual, PPerf        float64
	PAssert                float64
	PClose                 float64
	PReopen                float64
	PUnicode               float64
	PNegZero               float64
	Prices                 string // "", "tree", "graph"
	PriceGap               bool   // leave a commodity without a price before its first use
	FreshZeroAssert        bool   // assertions of 0 on never-used positions
	EquityAccrual          bool   // accruals may have equity legs
	InexactAccrual         bool   // accrual amounts that do not divide evenly
	TieWeights             bool   // sibling accounts with equal amounts
	SameDayPriceOK         bool   // (never: excluded by C05) two prices for a pair on one day
	Ancient                bool   // dates before the year 1000
	PNegPrice              float64 // rate of negative quotes
	MinTxn                 int
	DailyPrices            bool // a quote on every day of the span
	BusyDay                bool // hundreds of transactions on one day (code that goes parallel above a threshold)
	UnicodeDesc            bool // descriptions full of multi-byte characters
}

func DefaultGen() GenCfg {
	return GenCfg{MaxAcc: 9, MaxCom: 4, MaxTxn: 30, MaxSpan: 500, PAccrual: 0.06, PPerf: 0.1, PAssert: 0.25, PClose: 0.3, PReopen: 0.1, PUnicode: 0.05, PNegZero: 0.12}
}

var comPool = []string{"CHF", "USD", "EUR", "AAPL", "BTC", "GLD", "X1", "Ærø", "usd"} // "usd" and "USD" are different commodities
var segPool = []string{"Bank", "Cash", "Broker", "Checking", "Savings", "US", "CH", "Food", "Rent", "Tax", "Salary", "Misc", "A1", "B2", "bank", "k2", "A01", "Bank2", "Übrig", "日本", "Сбережения", "Ärztekostenübernahme"} // "A1"/"A01" differ in a leading zero only; "Bank" is a string prefix of "Bank2"
var roots = []string{"Assets", "Liabilities", "Equity", "Income", "Expenses"}
var descPool = []string{"Groceries", "Salary", "Rent", "Transfer", "Buy", "Sell", "Fee", "Dividend", "Tax", "Gift", "Coffee & cake", "Zürich trip", " Padded", "Trailing ", "two  spaces", "\n  Dinner on the next line", "30% off", "discount 100%", "mounted as E:\\", "back\\\\slash \\n", "ends in two \\\\", "x", ""}

var anchors = []Day{D(2019, 12, 20), D(2020, 2, 20), D(2021, 6, 25), D(2022, 12, 28), D(2023, 9, 30), D(2024, 2, 27), D(2020, 12, 24), D(2024, 12, 26)} // the last two: the turn of a leap year

// Gen builds a journal that RefCheck accepts.
func Gen(r *simrt.Rand, c GenCfg) *Journal {
	for try := 0; try < 50; try++ {
		j := gen1(r.Fork(uint64(try)), c)
		if v := RefCheck(j); v.OK {
			return j
		}
	}
	panic(InfraError{"generator could not produce an accepted journal"})
}

type genState struct {
	r       *simrt.Rand
	c       GenCfg
	coms    []string
	accs    []string
	opened  map[string]Day
	closedA map[string]Day
	dirs    []Dir
	start   Day
	span    int
}

func (g *genState) qty() Q {
	r := g.r
	var q int64
	switch r.Intn(6) {
	case 0:
		q = int64(r.Range(1, 500)) * QScale
	case 1:
		q = int64(r.Range(1, 99999)) * 100
	case 2:
		q = int64(r.Range(1, 9999999))
	case 3:
		q = int64(r.Range(1, 20)) * QScale * 1000
	case 4:
		q = int64(r.Range(1, 1000000)) * QScale
	default:
		q = int64(r.Range(1, 50)) * QScale
	}
	if r.P(g.c.PNegZero) {
		if r.Intn(4) == 0 {
			return 0
		}
		return Q(-q)
	}
	return Q(q)
}

func gen1(r *simrt.Rand, c GenCfg) *Journal {
	g := &genState{r: r, c: c, opened: map[string]Day{}, closedA: map[string]Day{}}
	ncom := r.Range(1, c.MaxCom)
	perm := r.Perm(len(comPool))
	for _, i := range perm {
		if comPool[i] == "Ærø" && !r.P(c.PUnicode*4) {
			continue
		}
		g.coms = append(g.coms, comPool[i])
		if len(g.coms) == ncom {
			break
		}
	}
	// accounts
	nacc := r.Range(3, c.MaxAcc)
	set := map[string]bool{"Equity:Equity": true}
	g.accs = []string{"Equity:Equity"}
	// make sure there is at least one asset and one expense account
	need := []string{"Assets", "Expenses"}
	for len(g.accs) < nacc {
		root := roots[r.Intn(len(roots))]
		if len(need) > 0 {
			root, need = need[0], need[1:]
		}
		depth := r.Range(1, 3)
		if root != "Equity" && r.P(0.04) {
			depth = 0 // a top-level account: "Assets" itself is a legal account name
		}
		segs := []string{root}
		for k := 0; k < depth; k++ {
			s := segPool[r.Intn(len(segPool)-4)]
			if r.P(c.PUnicode) {
				s = segPool[len(segPool)-1-r.Intn(4)] // non-ASCII: two short ones, a Cyrillic one, a long one with umlauts
			}
			segs = append(segs, s)
		}
		// reuse prefixes of existing accounts so that trees have siblings
		if len(g.accs) > 1 && r.P(0.5) {
			base := strings.Split(g.accs[1+r.Intn(len(g.accs)-1)], ":")
			if base[0] == root || r.P(0.3) {
				k := r.Range(1, len(base))
				segs = append(append([]string{}, base[:k]...), segs[len(segs)-1])
				if r.P(0.3) {
					segs = append(segs, segPool[r.Intn(len(segPool)-4)])
				}
			}
		}
		a := strings.Join(segs, ":")
		if !set[a] {
			set[a] = true
			g.accs = append(g.accs, a)
		}
	}
	g.start = anchors[r.Intn(len(anchors))] + Day(r.Intn(12))
	if c.Ancient {
		g.start = D(r.Range(100, 990), 3, 1) + Day(r.Intn(300))
	}
	g.span = r.Range(1, c.MaxSpan)
	if r.P(0.2) {
		g.span = r.Range(1, 40)
	}
	if c.DailyPrices {
		g.span = r.Range(c.MaxSpan/2, c.MaxSpan)
	}
	// opens: all on or shortly after the start, before any use
	openDay := map[string]Day{}
	for _, a := range g.accs {
		od := g.start
		if r.P(0.3) {
			od = g.start + Day(r.Intn(1+g.span/4))
		}
		openDay[a] = od
		g.dirs = append(g.dirs, Dir{Kind: "open", Date: od, Account: a})
	}
	hasAccrual := false
	ntx := r.Range(c.MinTxn, c.MaxTxn)
	if r.P(0.9) && ntx == 0 {
		ntx = 1
	}
	usable := func(d Day) []string {
		var u []string
		for _, a := range g.accs {
			if openDay[a] <= d {
				u = append(u, a)
			}
		}
		return u
	}
	var tieQty Q
	for t := 0; t < ntx; t++ {
		d := g.start + Day(r.Intn(g.span+1))
		if c.BusyDay && r.P(0.8) {
			d = g.start + Day(g.span/2) // most bookings fall on one day
		}
		u := usable(d)
		if len(u) < 2 {
			d = g.start + Day(g.span/4+1)
			if d > g.start+Day(g.span) {
				d = g.start + Day(g.span)
			}
			u = usable(d)
			if len(u) < 2 {
				continue
			}
		}
		dir := Dir{Kind: "txn", Date: d, Desc: descPool[r.Intn(len(descPool))], QStyle: r.Intn(3)}
		if c.UnicodeDesc && r.P(0.8) {
			dir.Desc = []string{"Zürcher Gebühr für März", "日本旅行の経費", "Café crème à l'île", "Ærøskøbing færge", "über öffentliche Straßen"}[r.Intn(5)] + strings.Repeat("é", r.Intn(4))
		}
		nb := 1
		if r.P(0.3) {
			nb = r.Range(2, 3)
		}
		for k := 0; k < nb; k++ {
			i := r.Intn(len(u))
			jx := r.Intn(len(u) - 1)
			if jx >= i {
				jx++
			}
			q := g.qty()
			if c.TieWeights && r.P(0.5) {
				if tieQty == 0 {
					tieQty = q
				}
				q = tieQty
			}
			dir.Bookings = append(dir.Bookings, Booking{Credit: u[i], Debit: u[jx], Qty: q, Com: g.coms[r.Intn(len(g.coms))]})
		}
		if r.P(c.PPerf) {
			dir.HasPerf = true
			dir.Perf = []string{}
			for k := r.Intn(3); k > 0; k-- {
				dir.Perf = append(dir.Perf, g.coms[r.Intn(len(g.coms))])
			}
		}
		if r.P(c.PAccrual) {
			// accrual account: an asset or liability account open from the start
			var cands []string
			for _, a := range g.accs {
				if isAL(a) {
					cands = append(cands, a)
				}
			}
			if len(cands) > 0 {
				iv := r.Range(IvDaily, IvQuarterly)
				ws := g.start + Day(r.Intn(g.span+1))
				maxLen := map[int]int{IvDaily: 10, IvWeekly: 60, IvMonthly: 300, IvQuarterly: 500}[iv]
				we := ws + Day(r.Intn(maxLen+1))
				dust := c.InexactAccrual && r.P(0.2)
				if dust {
					// a small amount over many periods: each period's share truncates to 0.0, the first
					// period carries everything
					iv = IvDaily
					we = ws + Day(r.Range(40, 150))
				}
				acc := cands[r.Intn(len(cands))]
				ok := true
				for _, b := range dir.Bookings {
					for _, a := range []string{b.Credit, b.Debit} {
						if !c.EquityAccrual && !isAL(a) && !isIE(a) {
							ok = false
						}
					}
				}
				if ok {
					n := int64(len(partition(ws, we, iv, 0)))
					if dust {
						for k := range dir.Bookings {
							q := Q(r.Range(1, 30)) * QScale / 10
							if dir.Bookings[k].Qty < 0 {
								q = -q
							}
							dir.Bookings[k].Qty = q
						}
					} else if !c.InexactAccrual || r.P(0.7) {
						for k := range dir.Bookings {
							// exact multiples of n at one decimal place
							unit := int64(QScale / 10)
							per := int64(r.Range(1, 5000)) * unit
							q := Q(per * n)
							if dir.Bookings[k].Qty < 0 {
								q = -q
							}
							dir.Bookings[k].Qty = q
						}
					}
					dir.Accrual = &Accrual{Interval: iv, Start: ws, End: we, Account: acc}
					hasAccrual = true
					// everything touched by the expansion must be open over the window
					for _, b := range dir.Bookings {
						for _, a := range []string{b.Credit, b.Debit, acc} {
							if openDay[a] > ws || openDay[a] > d {
								m := ws
								if d < m {
									m = d
								}
								openDay[a] = m
							}
						}
					}
				}
			}
		}
		g.dirs = append(g.dirs, dir)
		if dir.Accrual == nil && r.P(0.06) {
			// a near-duplicate on the same day: the same description, accounts and quantities,
			// differing only in the commodity or in the @performance targets (one list a prefix of the other)
			dup := dir
			dup.Bookings = append([]Booking{}, dir.Bookings...)
			if len(g.coms) > 1 && r.Bool() {
				for k := range dup.Bookings {
					for _, cm := range g.coms {
						if cm != dup.Bookings[k].Com {
							dup.Bookings[k].Com = cm
							break
						}
					}
				}
			} else {
				dup.HasPerf = true
				dup.Perf = append(append([]string{}, dir.Perf...), g.coms[r.Intn(len(g.coms))])
			}
			g.dirs = append(g.dirs, dup)
		}
	}
	// fix up opens moved by accruals
	for i := range g.dirs {
		if g.dirs[i].Kind == "open" {
			g.dirs[i].Date = openDay[g.dirs[i].Account]
		}
	}
	j := &Journal{Dirs: g.dirs}
	// running positions by day for assertions and closes
	ps := j.Postings()
	sort.SliceStable(ps, func(a, b int) bool { return ps[a].Date < ps[b].Date })
	lastDay := g.start + Day(g.span)
	for _, p := range ps {
		if p.Date > lastDay {
			lastDay = p.Date
		}
	}
	posAt := func(acc, com string, d Day) Q {
		var q Q
		for _, p := range ps {
			if p.Date <= d && p.Account == acc && p.Com == com {
				q += p.Qty
			}
		}
		return q
	}
	var alAccs []string
	for _, a := range g.accs {
		if isAL(a) {
			alAccs = append(alAccs, a)
		}
	}
	nas := 0
	if len(alAccs) > 0 {
		for t := 0; t < ntx+1; t++ {
			if !r.P(c.PAssert) {
				continue
			}
			d := g.start + Day(r.Intn(g.span+1))
			dir := Dir{Kind: "assert", Date: d, QStyle: r.Intn(3)}
			nb := 1
			if r.P(0.3) {
				nb = r.Range(2, 3)
				dir.Multi = true
			} else if r.P(0.15) {
				dir.Multi = true
			}
			for k := 0; k < nb; k++ {
				a := alAccs[r.Intn(len(alAccs))]
				if openDay[a] > d {
					continue
				}
				com := g.coms[r.Intn(len(g.coms))]
				if !c.FreshZeroAssert {
					touched := false
					for _, p := range ps {
						if p.Date <= d && p.Account == a && p.Com == com {
							touched = true
							break
						}
					}
					if !touched {
						continue
					}
				}
				dir.Balances = append(dir.Balances, Bal{Account: a, Qty: posAt(a, com, d), Com: com})
			}
			if len(dir.Balances) > 0 {
				j.Dirs = append(j.Dirs, dir)
				nas++
			}
		}
	}
	// closes: after the last day, accounts whose positions are all zero
	closeDay := lastDay + Day(r.Range(0, 3))
	_ = hasAccrual
	for _, a := range g.accs {
		if a == "Equity:Equity" || !r.P(c.PClose) {
			continue
		}
		zero := true
		if isAL(a) {
			for _, com := range g.coms {
				if posAt(a, com, closeDay) != 0 {
					zero = false
				}
			}
		}
		if zero {
			life := g.coms[r.Intn(len(g.coms))]
			if isAL(a) && r.P(0.5) && closeDay-2 >= openDay[a] {
				// the account held something in its first life and was emptied before the close
				q := Q(r.Range(1, 900)) * 100
				j.Dirs = append(j.Dirs,
					Dir{Kind: "txn", Date: closeDay - 2, Desc: "first life", QStyle: r.Intn(3), Bookings: []Booking{{Credit: "Equity:Equity", Debit: a, Qty: q, Com: life}}},
					Dir{Kind: "txn", Date: closeDay - 1, Desc: "first life ends", QStyle: r.Intn(3), Bookings: []Booking{{Credit: a, Debit: "Equity:Equity", Qty: q, Com: life}}})
			}
			j.Dirs = append(j.Dirs, Dir{Kind: "close", Date: closeDay, Account: a})
			if r.P(c.PReopen) {
				ro := closeDay + Day(r.Range(1, 5))
				j.Dirs = append(j.Dirs, Dir{Kind: "open", Date: ro, Account: a})
				if r.P(0.7) {
					// the re-opened account is used again, in a commodity it may have held before
					q := Q(r.Range(1, 5000)) * 100
					cm := g.coms[r.Intn(len(g.coms))]
					if r.P(0.7) {
						cm = life
					}
					ud := ro + Day(r.Range(0, 20))
					j.Dirs = append(j.Dirs, Dir{Kind: "txn", Date: ud, Desc: "after reopening", QStyle: r.Intn(3),
						Bookings: []Booking{{Credit: "Equity:Equity", Debit: a, Qty: q, Com: cm}}})
					if r.P(0.4) {
						// a second life that ends properly: emptied and closed again
						j.Dirs = append(j.Dirs, Dir{Kind: "txn", Date: ud + Day(r.Range(1, 9)), Desc: "emptied again", QStyle: r.Intn(3),
							Bookings: []Booking{{Credit: a, Debit: "Equity:Equity", Qty: q, Com: cm}}})
						j.Dirs = append(j.Dirs, Dir{Kind: "close", Date: ud + Day(r.Range(9, 12)), Account: a})
					}
				}
			}
		}
	}
	// an account that never holds anything and is closed early, and whose name is a
	// string prefix of another account's name (its parent, or the name minus its last
	// letter): closing it concerns no other account
	if len(alAccs) > 0 && r.P(0.12) {
		b := alAccs[r.Intn(len(alAccs))]
		segs := strings.Split(b, ":")
		a := ""
		if len(segs) > 2 && r.P(0.5) {
			a = strings.Join(segs[:len(segs)-1], ":")
		} else if last := []rune(segs[len(segs)-1]); len(last) > 1 && len(segs) > 1 {
			a = strings.Join(segs[:len(segs)-1], ":") + ":" + string(last[:len(last)-1])
		}
		taken := false
		for _, x := range g.accs {
			if x == a {
				taken = true
			}
		}
		if a != "" && !taken {
			j.Dirs = append(j.Dirs, Dir{Kind: "open", Date: g.start, Account: a},
				Dir{Kind: "close", Date: g.start + Day(r.Range(0, 1+g.span/2)), Account: a})
		}
	}
	// prices
	if c.Prices != "" && len(g.coms) > 1 {
		genPrices(g, j, ps)
	}
	return j
}

// genPrices adds price declarations. Tree mode: every commodity has exactly one
// chain of declarations to the first commodity; graph mode adds alternative
// paths (used by C12 only).
func genPrices(g *genState, j *Journal, ps []Posting) {
	r := g.r
	first := g.start - Day(r.Range(0, 5))
	parent := map[string]string{}
	depth := map[string]int{g.coms[0]: 0}
	for i := 1; i < len(g.coms); i++ {
		var cands []string
		for k := 0; k < i; k++ {
			if depth[g.coms[k]] < 2 {
				cands = append(cands, g.coms[k])
			}
		}
		p := cands[r.Intn(len(cands))]
		parent[g.coms[i]] = p
		depth[g.coms[i]] = depth[p] + 1
	}
	price := func() Q {
		if g.c.PNegPrice > 0 && r.P(g.c.PNegPrice) {
			return -Q(r.Range(1, 9999)) * 100 // a negative quote (crude oil in April 2020): legal, only zero is rejected
		}
		switch r.Intn(4) {
		case 0:
			return Q(r.Range(1, 9999)) * 100 // x.xx
		case 1:
			return Q(r.Range(1, 99999))
		case 2:
			return Q(r.Range(1, 400)) * QScale
		}
		return Q(r.Range(5000, 20000))
	}
	var allDays []Day
	for i := 1; i < len(g.coms); i++ {
		c := g.coms[i]
		inv := r.P(0.3)
		daily := r.P(0.2) || g.c.DailyPrices
		days := []Day{first}
		for k := 0; k < len(allDays) && k < 4; k++ {
			if r.P(0.5) {
				days = append(days, allDays[r.Intn(len(allDays))]) // share days with other commodities' quotes
			}
		}
		if g.c.PriceGap && i == len(g.coms)-1 {
			// first price only some way into the span
			days = []Day{g.start + Day(r.Range(1, 1+g.span/2))}
		}
		if daily {
			for d := days[0] + 1; d <= g.start+Day(g.span) && (len(days) < 60 || g.c.DailyPrices); d++ {
				days = append(days, d)
			}
		} else {
			for k := r.Intn(8); k > 0; k-- {
				days = append(days, g.start+Day(r.Intn(g.span+1)))
			}
		}
		seen := map[Day]bool{}
		sort.Slice(days, func(a, b int) bool { return days[a] < days[b] })
		var lastP Q
		for _, d := range days {
			if seen[d] {
				continue
			}
			seen[d] = true
			p := price()
			if lastP != 0 && r.P(0.3) {
				p = lastP // a quote that repeats the known value (a pegged currency, a money-market fund)
			}
			lastP = p
			dir := Dir{Kind: "price", Date: d, Com: c, Price: p, Target: parent[c], QStyle: r.Intn(3)}
			if inv {
				dir.Com, dir.Target = parent[c], c
			}
			j.Dirs = append(j.Dirs, dir)
			allDays = append(allDays, d)
		}
	}
}

// ---- layout ----------------------------------------------------------------------

// Layout says how a journal is written to files.
type Layout struct {
	Order   []int    // permutation of directive indices
	File    []int    // file index per position in Order
	Parent  []int    // include tree: parent file of file i (file 0 is the root, Parent[0] = -1)
	Names   []string // path of each file relative to the root directory
	CRLF    bool
	Comment bool
	Root    string
	// IncludesLast puts a file's include directives after its own directives;
	// NoFinalNewline makes every file end without a line break (so that a file
	// can end in the middle of an include directive's line).
	IncludesLast   bool
	NoFinalNewline bool
	// UncleanMain spells the root file's path with a redundant element (1: "/./", 2: "/zz/../"),
	// as a user who types ./journal.knut does.
	UncleanMain int `json:",omitempty"`
	// Diamond lists additional include edges (from file, to file): the file is then
	// reached along two paths and loaded twice, which is legal as long as it holds
	// only directives that may be repeated (prices, assertions).
	Diamond [][2]int `json:",omitempty"`
}

// AddDiamond moves the price directives (and, at some rate, the assertions) into a
// file of their own that two different files include. It reports whether it did.
func (l *Layout) AddDiamond(r *simrt.Rand, j *Journal) bool {
	nf := len(l.Names)
	if nf < 2 {
		return false
	}
	withAsserts := r.P(0.5)
	moved := 0
	for pos, di := range l.Order {
		k := j.Dirs[di].Kind
		if k == "price" || (withAsserts && k == "assert") {
			l.File[pos] = nf
			moved++
		}
	}
	if moved == 0 {
		return false
	}
	p1 := r.Intn(nf)
	p2 := r.Intn(nf - 1)
	if p2 >= p1 {
		p2++
	}
	l.Parent = append(l.Parent, p1)
	l.Names = append(l.Names, []string{"shared/prices.knut", "common.knut", "sub1/shared.knut"}[r.Intn(3)])
	l.Diamond = append(l.Diamond, [2]int{p2, nf})
	return true
}

// CanonLayout is the single-file chronological layout.
func CanonLayout(j *Journal) *Layout {
	idx := make([]int, len(j.Dirs))
	for i := range idx {
		idx[i] = i
	}
	sort.SliceStable(idx, func(a, b int) bool {
		da, db := &j.Dirs[idx[a]], &j.Dirs[idx[b]]
		if da.Date != db.Date {
			return da.Date < db.Date
		}
		return kindOrder[da.Kind] < kindOrder[db.Kind]
	})
	return &Layout{Order: idx, File: make([]int, len(idx)), Parent: []int{-1}, Names: []string{"main.knut"}, Root: "/w"}
}

// RandLayout draws an order (chronological, reversed, shuffled) and an include tree.
func RandLayout(r *simrt.Rand, j *Journal, maxFiles int) *Layout {
	l := CanonLayout(j)
	switch r.Intn(4) {
	case 0:
	case 1:
		for i, k := 0, len(l.Order)-1; i < k; i, k = i+1, k-1 {
			l.Order[i], l.Order[k] = l.Order[k], l.Order[i]
		}
	default:
		p := r.Perm(len(l.Order))
		o := make([]int, len(p))
		for i, k := range p {
			o[i] = l.Order[k]
		}
		l.Order = o
	}
	nf := r.Range(1, maxFiles)
	if nf > len(l.Order)+1 {
		nf = len(l.Order) + 1
	}
	l.Parent = []int{-1}
	l.Names = []string{"main.knut"}
	dirOf := []string{"."}
	if r.P(0.2) {
		// the root file in a directory of its own: includes may climb above it ("../shared/x.knut")
		l.Names = []string{"books/main.knut"}
		dirOf = []string{"books"}
	}
	common := r.P(0.3)
	used := map[string]bool{l.Names[0]: true}
	for f := 1; f < nf; f++ {
		p := r.Intn(f)
		if r.P(0.5) {
			p = f - 1 // deeper chains
		}
		l.Parent = append(l.Parent, p)
		d := dirOf[p]
		switch r.Intn(4) {
		case 0:
			d = path.Join(d, fmt.Sprintf("sub%d", f))
		case 1:
			if d != "." {
				d = path.Dir(d)
			}
		}
		dirOf = append(dirOf, d)
		name := path.Join(d, fmt.Sprintf("f%d.knut", f))
		if common {
			// the same few file names in every directory, as in a tree with one folder per year
			alt := path.Join(d, []string{"prices.knut", "transactions.knut", "accounts.knut", "main.knut", "2020[q1].knut", "what?.knut", "all*.knut"}[r.Intn(7)]) // the last three: legal names that look like shell patterns
			if !used[alt] {
				name = alt
			}
		}
		used[name] = true
		l.Names = append(l.Names, name)
	}
	for i := range l.File {
		l.File[i] = r.Intn(nf)
	}
	l.CRLF = r.P(0.1)
	l.Comment = r.P(0.3)
	l.IncludesLast = r.P(0.25)
	l.NoFinalNewline = r.P(0.25)
	return l
}

// SpellMainUncleanly makes the root path carry a redundant element in 15% of the cases.
func (l *Layout) SpellMainUncleanly(r *simrt.Rand) {
	if r.P(0.15) {
		l.UncleanMain = r.Range(1, 2)
	}
}

// WideLayout is an include tree that is wide and nested at once: the root
// includes 8-14 files, each of which includes one or two files of its own.
func WideLayout(r *simrt.Rand, j *Journal) *Layout {
	l := CanonLayout(j)
	p := r.Perm(len(l.Order))
	o := make([]int, len(p))
	for i, k := range p {
		o[i] = l.Order[k]
	}
	l.Order = o
	l.Parent = []int{-1}
	l.Names = []string{"main.knut"}
	fan := r.Range(8, 14)
	if r.P(0.15) {
		fan = r.Range(33, 48) // very wide: limits in the thirties
	}
	for f := 1; f <= fan; f++ {
		l.Parent = append(l.Parent, 0)
		l.Names = append(l.Names, fmt.Sprintf("w%d/f%d.knut", f, f))
	}
	for f := 1; f <= fan; f++ {
		for k := r.Range(1, 2); k > 0; k-- {
			l.Parent = append(l.Parent, f)
			l.Names = append(l.Names, fmt.Sprintf("w%d/sub/g%d_%d.knut", f, f, k))
		}
	}
	nf := len(l.Names)
	for i := range l.File {
		l.File[i] = r.Intn(nf)
	}
	l.IncludesLast = r.P(0.25)
	return l
}

// Files renders the journal into files according to the layout.
func (l *Layout) Files(j *Journal) map[string]string {
	nf := len(l.Names)
	bufs := make([]strings.Builder, nf)
	// includes first (relative to the including file), or last
	incs := make([]strings.Builder, nf)
	for f := 1; f < nf; f++ {
		p := l.Parent[f]
		rel := relPath(path.Dir(l.Names[p]), l.Names[f])
		// the same file can be named in several ways
		switch (f*7 + len(l.Order)) % 6 {
		case 0:
			rel = "./" + rel
		case 1:
			if !strings.HasPrefix(rel, "..") {
				rel = "x/../" + rel
			}
		}
		fmt.Fprintf(&incs[p], "include \"%s\"\n", rel)
	}
	for _, e := range l.Diamond {
		fmt.Fprintf(&incs[e[0]], "include \"%s\"\n", relPath(path.Dir(l.Names[e[0]]), l.Names[e[1]]))
	}
	if !l.IncludesLast {
		for f := 0; f < nf; f++ {
			if incs[f].Len() > 0 {
				bufs[f].WriteString(incs[f].String())
				bufs[f].WriteString("\n")
			}
		}
	}
	for pos, di := range l.Order {
		d := &j.Dirs[di]
		b := &bufs[l.File[pos]]
		if l.Comment && pos%5 == 0 {
			fmt.Fprintf(b, "# section %d\n", pos)
		}
		b.WriteString(d.Render())
		// a blank line after every directive keeps multi-line bodies terminated
		b.WriteString("\n")
	}
	out := map[string]string{}
	for f := 0; f < nf; f++ {
		if l.IncludesLast {
			bufs[f].WriteString(incs[f].String())
		}
		s := bufs[f].String()
		if l.NoFinalNewline {
			s = strings.TrimRight(s, "\n")
		}
		crlf := l.CRLF
		for i := range j.Dirs {
			if strings.Contains(j.Dirs[i].Desc, "\n") {
				crlf = false // a line break inside a description would change the description itself
			}
		}
		if crlf {
			s = strings.ReplaceAll(s, "\n", "\r\n")
		}
		out[path.Join(l.Root, l.Names[f])] = s
	}
	return out
}

func (l *Layout) Main() string {
	switch l.UncleanMain {
	case 1:
		return l.Root + "/./" + l.Names[0]
	case 2:
		return l.Root + "/zz/../" + l.Names[0]
	}
	return path.Join(l.Root, l.Names[0])
}

func relPath(fromDir, to string) string {
	f := strings.Split(path.Clean(fromDir), "/")
	t := strings.Split(path.Clean(to), "/")
	if len(f) == 1 && f[0] == "." {
		f = nil
	}
	i := 0
	for i < len(f) && i < len(t)-1 && f[i] == t[i] {
		i++
	}
	var parts []string
	for k := i; k < len(f); k++ {
		parts = append(parts, "..")
	}
	parts = append(parts, t[i:]...)
	return strings.Join(parts, "/")
}

// ---- journal facts used by flag generation --------------------------------------------

// RenameAccount replaces an account name throughout the journal (opens, closes,
// bookings, accrual accounts, assertions).
func (j *Journal) RenameAccount(old, new string) {
	for i := range j.Dirs {
		d := &j.Dirs[i]
		if d.Account == old {
			d.Account = new
		}
		for k := range d.Bookings {
			if d.Bookings[k].Credit == old {
				d.Bookings[k].Credit = new
			}
			if d.Bookings[k].Debit == old {
				d.Bookings[k].Debit = new
			}
		}
		if d.Accrual != nil && d.Accrual.Account == old {
			a := *d.Accrual
			a.Account = new
			d.Accrual = &a
		}
		for k := range d.Balances {
			if d.Balances[k].Account == old {
				d.Balances[k].Account = new
			}
		}
	}
}

func (j *Journal) Accounts() []string {
	m := map[string]bool{}
	for _, d := range j.Dirs {
		if d.Account != "" {
			m[d.Account] = true
		}
		for _, b := range d.Bookings {
			m[b.Credit], m[b.Debit] = true, true
		}
	}
	var as []string
	for a := range m {
		as = append(as, a)
	}
	sort.Strings(as)
	return as
}

func (j *Journal) Commodities() []string {
	m := map[string]bool{}
	for _, d := range j.Dirs {
		for _, b := range d.Bookings {
			m[b.Com] = true
		}
		if d.Kind == "price" {
			m[d.Com], m[d.Target] = true, true
		}
	}
	var cs []string
	for c := range m {
		cs = append(cs, c)
	}
	sort.Strings(cs)
	return cs
}

// TxnSpan returns the first and last transaction date (after accrual expansion),
// and the last date of a transaction or price: what knut calls the journal's period.
func (j *Journal) TxnSpan() (min, max Day, ok bool) {
	first := true
	for i := range j.Dirs {
		d := &j.Dirs[i]
		switch d.Kind {
		case "txn":
			for _, p := range d.Expand(i) {
				if first || p.Date < min {
					min = p.Date
				}
				if first || p.Date > max {
					max = p.Date
				}
				first = false
				ok = true
			}
		}
	}
	for i := range j.Dirs {
		d := &j.Dirs[i]
		if d.Kind == "price" && ok && d.Date > max {
			max = d.Date
		}
	}
	return
}

var _ = time.Now
