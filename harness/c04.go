package harness

import (
	"fmt"
	"strings"

	"knutsim/simrt"
)

// C04: check accepts exactly the well-formed journals; the verdict does not
// depend on the arrival order of same-day directives from different files.
type c04 struct{}

func init() { Register(c04{}) }

func (c04) ID() string { return "C04" }

// mutate introduces one lifecycle or assertion defect (or none).
func mutate(r *simrt.Rand, j *Journal) string {
	find := func(kind string) []int {
		var is []int
		for i, d := range j.Dirs {
			if d.Kind == kind {
				is = append(is, i)
			}
		}
		return is
	}
	pick := func(is []int) int { return is[r.Intn(len(is))] }
	switch r.Intn(10) {
	case 9: // a re-opened account that is closed again while it still holds something
		for _, d := range j.Dirs {
			if d.Kind == "txn" && d.Desc == "after reopening" && isAL(d.Bookings[0].Debit) && d.Bookings[0].Qty != 0 {
				a := d.Bookings[0].Debit
				// drop a later regular close of that account, if any, and close right after the booking
				var ds []Dir
				for _, x := range j.Dirs {
					if (x.Kind == "close" && x.Account == a && x.Date > d.Date) || (x.Kind == "txn" && x.Desc == "emptied again" && x.Bookings[0].Credit == a) {
						continue
					}
					ds = append(ds, x)
				}
				j.Dirs = append(ds, Dir{Kind: "close", Date: d.Date + Day(r.Range(0, 3)), Account: a})
				return "close-reopened-with-position"
			}
		}
	case 0: // drop an open
		if is := find("open"); len(is) > 0 {
			i := pick(is)
			j.Dirs = append(j.Dirs[:i], j.Dirs[i+1:]...)
			return "drop-open"
		}
	case 1: // open later than first use
		if is := find("open"); len(is) > 0 {
			i := pick(is)
			j.Dirs[i].Date += Day(r.Range(1, 200))
			return "late-open"
		}
	case 2: // double open
		if is := find("open"); len(is) > 0 {
			d := j.Dirs[pick(is)]
			d.Date += Day(r.Range(0, 30))
			j.Dirs = append(j.Dirs, d)
			return "double-open"
		}
	case 3: // wrong assertion
		if is := find("assert"); len(is) > 0 {
			i := pick(is)
			k := r.Intn(len(j.Dirs[i].Balances))
			j.Dirs[i].Balances[k].Qty += Q([]int64{1, -1, 10000, -5000}[r.Intn(4)])
			return "wrong-assert"
		}
	case 4: // use after close
		if is := find("close"); len(is) > 0 {
			c := j.Dirs[pick(is)]
			others := j.Accounts()
			if len(others) == 0 {
				break
			}
			o := others[r.Intn(len(others))]
			if o != c.Account {
				j.Dirs = append(j.Dirs, Dir{Kind: "txn", Date: c.Date + Day(r.Range(0, 3)), Desc: "after close", Bookings: []Booking{{Credit: o, Debit: c.Account, Qty: 10000, Com: "CHF"}}})
				return "use-after-close"
			}
		}
	case 5: // close with a position
		accs := j.Accounts()
		var al []string
		for _, a := range accs {
			if isAL(a) {
				al = append(al, a)
			}
		}
		if len(al) > 0 {
			_, max, _ := j.TxnSpan()
			j.Dirs = append(j.Dirs, Dir{Kind: "close", Date: max - Day(r.Range(0, 40)), Account: al[r.Intn(len(al))]})
			return "early-close"
		}
	case 6: // close of an account that was never opened
		j.Dirs = append(j.Dirs, Dir{Kind: "close", Date: anchors[0] + Day(r.Range(0, 900)), Account: "Assets:Never:Opened"})
		return "close-unopened"
	case 7: // assertion on an unopened account
		j.Dirs = append(j.Dirs, Dir{Kind: "assert", Date: anchors[0] + Day(r.Range(0, 900)), Balances: []Bal{{Account: "Assets:Never:Opened", Qty: 0, Com: "CHF"}}})
		return "assert-unopened"
	case 8: // booking on an unopened account
		accs := j.Accounts()
		if len(accs) == 0 {
			break
		}
		j.Dirs = append(j.Dirs, Dir{Kind: "txn", Date: anchors[0] + Day(r.Range(0, 900)), Desc: "ghost", Bookings: []Booking{{Credit: accs[r.Intn(len(accs))], Debit: "Expenses:Never:Opened", Qty: 5, Com: "CHF"}}})
		return "post-unopened"
	}
	return "none"
}

func (c04) Gen(r *simrt.Rand, idx int, tier string) *Case {
	g := DefaultGen()
	g.FreshZeroAssert = true
	g.PAssert = 0.5
	g.PClose = 0.5
	g.PReopen = 0.3
	g.MaxTxn = 14
	g.MaxSpan = 200
	g.InexactAccrual = true
	g.PAccrual = 0.12
	c := &Case{Sub: "valid", Gen: &g}
	c.J = Gen(r, g)
	if idx%3 != 0 {
		c.Sub = "mutant:" + mutate(r, c.J)
	}
	c.L = RandLayout(r, c.J, 6)
	if r.P(0.15) && c.L.AddDiamond(r, c.J) {
		c.Sub += "+diamond" // a file of prices/assertions included from two places
	}
	c.Today = "2030-01-01"
	c.Scheds = []Sched{RandSched(r), RandSched(r)}
	return c
}

func (c04) Eval(c *Case) (*Violation, bool) {
	ref := RefCheck(c.J)
	files := c.L.Files(c.J)
	for si, s := range c.Scheds {
		cmds := [][]string{{"check"}}
		if si == 0 {
			cmds = append(cmds, []string{"print"}, []string{"balance", "--color=false"})
		}
		for _, cm := range cmds {
			argv := append(append([]string{}, cm...), c.L.Main())
			o := Run(c.specFor(s, files, argv))
			if o.Outcome != simrt.OutReturned && o.Outcome != simrt.OutExit {
				return &Violation{Signature: "abnormal-end:" + o.Outcome, Msg: cm[0] + " ended with " + o.Outcome + " " + o.PanicValue, Detail: o.PanicStack}, false
			}
			if ref.OK && !o.OK() {
				return &Violation{Signature: "spurious-rejection:" + rejectClass(o.Stderr), Msg: fmt.Sprintf("%s rejects a well-formed journal", cm[0]), Detail: o.Stderr}, false
			}
			if !ref.OK && o.OK() {
				return &Violation{Signature: "spurious-acceptance", Msg: fmt.Sprintf("%s accepts a journal that is not well-formed: %s", cm[0], ref.Why)}, false
			}
			if !ref.OK {
				if o.Stderr == "" {
					return &Violation{Signature: "no-diagnostic", Msg: cm[0] + " failed without a diagnostic"}, false
				}
				if cm[0] != "check" && o.Stdout != "" {
					return &Violation{Signature: "stdout-on-failure", Msg: cm[0] + " failed but wrote to standard output", Detail: o.Stdout}, false
				}
				if !namesOffender(c.J, ref.Offending, o.Stderr) {
					return &Violation{Signature: "diagnostic-names-wrong-directive", Msg: "the diagnostic names none of the offending directives (" + ref.Why + ")", Detail: o.Stderr}, false
				}
			}
		}
	}
	return nil, false
}

func rejectClass(stderr string) string {
	line := stderr
	if i := strings.IndexByte(line, '\n'); i >= 0 {
		line = line[:i]
	}
	for _, k := range []string{"failed assertion", "is not open", "already open", "nonzero position"} {
		if strings.Contains(line, k) {
			if k == "failed assertion" && strings.Contains(line, "has position:  ") {
				return "assertion-on-untouched-position"
			}
			return strings.ReplaceAll(k, " ", "-")
		}
	}
	return "other"
}

// namesOffender: the diagnostic prints the offending directive; we look for
// the date of one of the implicated directives together with its account or
// description.
func namesOffender(j *Journal, offending []int, stderr string) bool {
	for _, i := range offending {
		d := &j.Dirs[i]
		dates := []string{d.Date.String()}
		if d.Kind == "txn" && d.Accrual != nil {
			for _, p := range d.Expand(i) {
				dates = append(dates, p.Date.String())
			}
		}
		for _, ds := range dates {
			if !strings.Contains(stderr, ds) {
				continue
			}
			switch d.Kind {
			case "open", "close":
				if strings.Contains(stderr, d.Account) {
					return true
				}
			case "assert":
				for _, b := range d.Balances {
					if strings.Contains(stderr, b.Account) {
						return true
					}
				}
			case "txn":
				if strings.Contains(stderr, d.Desc) {
					return true
				}
			}
		}
	}
	return false
}
