package harness

import "knutsim/simrt"

func genInferCase(r *simrt.Rand, c *Case, ties bool) *Case { return nil }
func genImportCase(r *simrt.Rand, c *Case) *Case         { return nil }
