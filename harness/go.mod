module knutsim/harness

go 1.25
