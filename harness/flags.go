package harness

import (
	"fmt"
	"regexp"
	"strings"

	"knutsim/simrt"
)

// BalFlags are the balance flags in structured form (the reference models
// read them from here; Args() renders them for knut).
type BalFlags struct {
	From, To    *Day
	Interval    int
	Last        int
	Diff        bool
	Close       *bool // nil: default (true)
	SortAlpha   bool
	Val         string
	ShowCom     string
	Accounts    []string
	Commodities []string
	Mappings    []Mapping
	Remap       []string
	Digits      int
	Thousands   bool
	CSV         bool
}

type Mapping struct {
	Level, Suffix int
	HasSuffix     bool
	Regex         string
}

func (f *BalFlags) Args() []string {
	var a []string
	if f.From != nil {
		a = append(a, "--from", f.From.String())
	}
	if f.To != nil {
		a = append(a, "--to", f.To.String())
	}
	if f.Interval != IvOnce {
		a = append(a, ivFlag[f.Interval])
	}
	if f.Last > 0 {
		a = append(a, "--last", fmt.Sprint(f.Last))
	}
	if f.Diff {
		a = append(a, "--diff")
	}
	if f.Close != nil {
		a = append(a, fmt.Sprintf("--close=%v", *f.Close))
	}
	if f.SortAlpha {
		a = append(a, "-a")
	}
	if f.Val != "" {
		a = append(a, "-v", f.Val)
	}
	if f.ShowCom != "" {
		a = append(a, "-s", f.ShowCom)
	}
	for _, x := range f.Accounts {
		a = append(a, "--account", x)
	}
	for _, x := range f.Commodities {
		a = append(a, "--commodity", x)
	}
	for _, m := range f.Mappings {
		s := fmt.Sprint(m.Level)
		if m.HasSuffix {
			s += fmt.Sprintf(":%d", m.Suffix)
		}
		if m.Regex != "" {
			s += "," + m.Regex
		}
		a = append(a, "-m", s)
	}
	for _, x := range f.Remap {
		a = append(a, "--remap", x)
	}
	if f.Digits > 0 {
		a = append(a, "--digits", fmt.Sprint(f.Digits))
	}
	if f.Thousands {
		a = append(a, "-k")
	}
	if f.CSV {
		a = append(a, "--csv")
	}
	return a
}

func (f *BalFlags) closing() bool { return f.Close == nil || *f.Close }

type FlagOpts struct {
	NoFilters       bool // C01: nothing hidden
	NoMapping       bool
	KeepAll         bool // mappings shorten but never hide (level >= 1), and --remap: nothing leaves the report
	Valued          bool
	AlwaysTo        bool
	NoRemap         bool
	WindowFromStart bool
}

// GenBalFlags draws a flag combination that makes sense for the journal.
func GenBalFlags(r *simrt.Rand, j *Journal, o FlagOpts) *BalFlags {
	f := &BalFlags{}
	min, max, ok := j.TxnSpan()
	if !ok {
		min, max = D(2020, 1, 1), D(2020, 12, 31)
	}
	span := int(max-min) + 1
	if r.P(0.4) && !o.WindowFromStart {
		var d Day
		switch r.Intn(4) {
		case 0:
			d = min - Day(r.Range(1, 40))
		case 1:
			d = min + Day(r.Intn(span))
		case 2:
			d = periodStart(min+Day(r.Intn(span)), IvMonthly)
		default:
			d = max + Day(r.Range(0, 3))
		}
		f.From = &d
	}
	if o.AlwaysTo || r.P(0.6) {
		var d Day
		switch r.Intn(4) {
		case 0:
			d = max + Day(r.Range(0, 40))
		case 1:
			d = min + Day(r.Intn(span))
		case 2:
			d = periodEnd(min+Day(r.Intn(span)), IvMonthly)
		default:
			d = max
		}
		f.To = &d
	}
	if r.P(0.7) {
		f.Interval = r.Range(IvDaily, IvYearly)
		// keep the number of columns sane
		lo, hi := min, max
		if f.From != nil && *f.From > lo {
			lo = *f.From
		}
		if f.To != nil && *f.To < hi {
			hi = *f.To
		}
		n := len(partition(lo, hi, f.Interval, 0))
		if hi < lo {
			n = 0
		}
		if n > 40 || r.P(0.3) {
			f.Last = r.Range(1, 5)
		}
		if n > 400 {
			f.Interval = IvQuarterly
		}
	}
	f.Diff = r.P(0.3)
	if r.P(0.4) {
		b := r.Bool()
		f.Close = &b
	}
	f.SortAlpha = r.P(0.5)
	coms := j.Commodities()
	accs := j.Accounts()
	if o.Valued && len(coms) > 0 {
		f.Val = coms[r.Intn(len(coms))]
		if r.P(0.3) {
			f.ShowCom = "."
		}
	}
	if !o.NoFilters {
		if r.P(0.2) && len(accs) > 0 {
			f.Accounts = append(f.Accounts, pickRegex(r, accs))
			// several filters of one kind are alternatives; each is a regex of its own
			// (an inline flag such as (?i) applies to that one only)
			for r.P(0.35) && len(f.Accounts) < 3 {
				x := pickRegex(r, accs)
				if r.P(0.4) {
					x = "(?i)" + strings.ToLower(x)
				}
				if r.P(0.5) {
					f.Accounts = append(f.Accounts, x)
				} else {
					f.Accounts = append([]string{x}, f.Accounts...)
				}
			}
		}
		if r.P(0.15) && len(coms) > 0 {
			f.Commodities = append(f.Commodities, "^"+regexp.QuoteMeta(coms[r.Intn(len(coms))])+"$")
			for r.P(0.35) && len(f.Commodities) < 3 {
				x := "^" + regexp.QuoteMeta(coms[r.Intn(len(coms))]) + "$"
				if r.P(0.4) {
					x = "(?i)" + strings.ToLower(x)
				}
				if r.P(0.5) {
					f.Commodities = append(f.Commodities, x)
				} else {
					f.Commodities = append([]string{x}, f.Commodities...)
				}
			}
		}
	}
	if !o.NoMapping && (!o.NoFilters || o.KeepAll) {
		for k := r.Intn(3); k > 0 && r.P(0.6); k-- {
			m := Mapping{Level: r.Range(0, 3)}
			if o.KeepAll {
				m.Level = r.Range(1, 3)
			}
			if r.P(0.4) {
				m.HasSuffix = true
				m.Suffix = r.Range(0, 2)
			}
			if r.P(0.8) && len(accs) > 0 {
				m.Regex = pickRegex(r, accs)
			}
			f.Mappings = append(f.Mappings, m)
		}
		if !o.NoRemap && r.P(0.12) && len(accs) > 0 {
			f.Remap = append(f.Remap, pickRegex(r, accs))
		}
	}
	return f
}

// pickRegex builds a simple regex from the journal's own account names.
func pickRegex(r *simrt.Rand, accs []string) string {
	a := accs[r.Intn(len(accs))]
	segs := strings.Split(a, ":")
	switch r.Intn(5) {
	case 0:
		return "^" + regexp.QuoteMeta(a) + "$"
	case 1:
		return "^" + regexp.QuoteMeta(segs[0])
	case 2:
		return regexp.QuoteMeta(segs[len(segs)-1])
	case 3:
		return "^" + regexp.QuoteMeta(strings.Join(segs[:1+r.Intn(len(segs))], ":"))
	}
	return regexp.QuoteMeta(segs[r.Intn(len(segs))])
}

// RandSched draws the swarm knobs of one run.
func RandSched(r *simrt.Rand) Sched {
	s := Sched{Seed: r.U64() | 1, MapSeed: r.U64(), MapMode: r.Range(1, 4), Bias: r.Intn(4), Workers: []int{1, 2, 4, 16}[r.Intn(4)]}
	if r.P(0.2) {
		s.MapMode = 0
	}
	if r.P(0.25) {
		s.LockYield = r.Range(1, 2)
	}
	return s
}

// CanonSched is the all-zero schedule: lowest key first, canonical map order.
func CanonSched() Sched { return Sched{Workers: 1} }
