package harness

import (
	"fmt"
	"sort"
	"strings"

	"knutsim/simrt"

	"github.com/shopspring/decimal"
)

// C16: transcode emits a balanced, self-consistent beancount ledger.
type c16 struct{}

func init() { Register(c16{}) }

func (c16) ID() string { return "C16" }

type bcTxn struct {
	Date  string
	Desc  string
	Posts []bcPost
}
type bcPost struct {
	Account string
	Amount  decimal.Decimal
	Cur     string
}
type bcEntry struct {
	Kind    string // open close txn
	Date    string
	Account string
	Txn     *bcTxn
}

// parseBeancount is the harness's line-based reader of transcode's output.
func parseBeancount(s string) (cur string, es []bcEntry, err error) {
	lines := strings.Split(s, "\n")
	for i := 0; i < len(lines); i++ {
		l := lines[i]
		if strings.TrimSpace(l) == "" {
			continue
		}
		if strings.HasPrefix(l, "option ") {
			f := strings.Split(l, "\"")
			if len(f) >= 4 && f[1] == "operating_currency" {
				cur = f[3]
			}
			continue
		}
		if !dateRx.MatchString(l) {
			return cur, nil, fmt.Errorf("line %d: entry expected: %q", i+1, l)
		}
		f := strings.Fields(l)
		switch {
		case len(f) == 3 && (f[1] == "open" || f[1] == "close"):
			es = append(es, bcEntry{Kind: f[1], Date: f[0], Account: f[2]})
		case len(f) >= 2 && f[1] == "*":
			q1, q2 := strings.IndexByte(l, '"'), strings.LastIndexByte(l, '"')
			head := l
			for (q1 < 0 || q2 <= q1 || strings.Count(head, "\"")%2 == 1) && i+1 < len(lines) {
				i++
				head += "\n" + lines[i]
				q1, q2 = strings.IndexByte(head, '"'), strings.LastIndexByte(head, '"')
			}
			if q1 < 0 || q2 <= q1 {
				return cur, nil, fmt.Errorf("line %d: bad transaction head %q", i+1, l)
			}
			t := &bcTxn{Date: f[0], Desc: head[q1+1 : q2]}
			for i+1 < len(lines) && strings.HasPrefix(lines[i+1], "  ") {
				i++
				g := strings.Fields(lines[i])
				if len(g) != 3 {
					return cur, nil, fmt.Errorf("line %d: bad posting %q", i+1, lines[i])
				}
				a, err := decimal.NewFromString(g[1])
				if err != nil {
					return cur, nil, fmt.Errorf("line %d: bad amount %q", i+1, g[1])
				}
				t.Posts = append(t.Posts, bcPost{g[0], a, g[2]})
			}
			es = append(es, bcEntry{Kind: "txn", Date: f[0], Txn: t})
		default:
			return cur, nil, fmt.Errorf("line %d: unknown entry %q", i+1, l)
		}
	}
	return cur, es, nil
}

func (c16) Gen(r *simrt.Rand, idx int, tier string) *Case {
	g := DefaultGen()
	g.Prices = "tree"
	g.MaxCom = 4
	g.MaxTxn = 16
	g.MaxSpan = 300
	g.PUnicode = 0
	if idx%5 == 3 {
		g.PNegPrice = 0.15
	}
	if idx%150 == 9 {
		// two years of daily quotes: several hundred days that carry directives
		g.MaxSpan, g.DailyPrices = 600, true
		g.MaxCom = 3
	}
	c := &Case{Sub: "ledger", Gen: &g, Today: "2030-01-01"}
	if idx%12 == 7 {
		// a ledger of several buffers' length, delivered through a failing standard output
		c.Sub = "stdout-fault"
		g.MinTxn, g.MaxTxn = 40, 90
	}
	for try := 0; try < 20; try++ {
		c.J = Gen(r, g)
		if len(c.J.Commodities()) >= 2 {
			break
		}
	}
	if min, max, ok := c.J.TxnSpan(); ok && idx%6 == 4 {
		// the command runs on a day in the middle of the journal: later entries are in the future
		c.Today = (min + (max-min)/2).String()
	}
	if r.P(0.25) {
		// genuinely repeated bookings: one to three transactions occur twice (or three times) on their
		// day, identical in every respect; each of them is a transaction of the ledger
		var txns []int
		for i, d := range c.J.Dirs {
			if d.Kind == "txn" && d.Accrual == nil {
				txns = append(txns, i)
			}
		}
		for k := r.Range(1, 3); k > 0 && len(txns) > 0; k-- {
			d := c.J.Dirs[txns[r.Intn(len(txns))]]
			d.Bookings = append([]Booking(nil), d.Bookings...)
			c.J.Dirs = append(c.J.Dirs, d)
			if r.P(0.3) {
				c.J.Dirs = append(c.J.Dirs, d)
			}
		}
	}
	cs := c.J.Commodities()
	if len(cs) == 0 {
		return nil
	}
	// ASCII commodity names only: transcode rewrites other characters
	var ascii []string
	for _, x := range cs {
		if x != "Ærø" {
			ascii = append(ascii, x)
		}
	}
	if len(ascii) == 0 {
		return nil
	}
	c.Val = ascii[r.Intn(len(ascii))]
	c.L = RandLayout(r, c.J, 5)
	c.Scheds = []Sched{RandSched(r)}
	return c
}

// evalStdoutFault: C16 speaks about the text transcode produces. When a write to standard output
// fails or is cut short, text may be missing at the end, but what has been delivered must be what
// the undisturbed run delivers at that position: nothing repeated, reordered or invented. Every
// Write call of the undisturbed run (up to six) is failed in turn: cut short after 1, 100 or
// all-but-one bytes (io.ErrShortWrite), EPIPE, ENOSPC; once as a transient condition, once for good.
func evalStdoutFault(c *Case) (*Violation, bool) {
	files := c.L.Files(c.J)
	argv := []string{"transcode", "-v", c.Val, c.L.Main()}
	base := Run(c.specFor(c.Scheds[0], files, argv))
	if !base.OK() || len(base.Stdout) == 0 {
		noteVacuous(c.Sub, base)
		return nil, true
	}
	calls := (len(base.Stdout) + 4095) / 4096 // bufio's default buffer
	if calls > 6 {
		calls = 6
	}
	fired := false
	for k := 1; k <= calls; k++ {
		for _, ft := range []simrt.StdoutFault{{Kind: "short", N: 1}, {Kind: "short", N: 100}, {Kind: "short", N: 1 << 30}, {Kind: "epipe"}, {Kind: "enospc"}} {
			for _, sticky := range []bool{false, true} {
				ft.Call, ft.Sticky = k, sticky
				sp := c.specFor(c.Scheds[0], files, argv)
				f := ft
				sp.StdoutFault = &f
				o := Run(sp)
				if o.Outcome != simrt.OutReturned && o.Outcome != simrt.OutExit {
					return &Violation{Signature: "abnormal-end:" + o.Outcome, Msg: fmt.Sprintf("transcode with a failing standard output (%+v) ended with %s %s", ft, o.Outcome, o.PanicValue), Detail: o.PanicStack}, false
				}
				if o.Probes["stdout-fault-fired"] == 0 {
					continue
				}
				fired = true
				Ctr.Faults["stdout:"+ft.Kind]++
				if !strings.HasPrefix(base.Stdout, o.Stdout) {
					return &Violation{Signature: "stdout-not-a-prefix-after-write-fault", Msg: fmt.Sprintf("write call %d on standard output fails (%s, %d bytes accepted, sticky=%v): the text delivered (%d bytes, exit status %d) is not a prefix of the undisturbed ledger (%d bytes)", k, ft.Kind, ft.N, sticky, len(o.Stdout), o.ExitCode, len(base.Stdout)), Detail: firstDiff(base.Stdout, o.Stdout)}, false
				}
			}
		}
	}
	return nil, !fired
}

func (c16) Eval(c *Case) (*Violation, bool) {
	if c.Sub == "stdout-fault" {
		return evalStdoutFault(c)
	}
	files := c.L.Files(c.J)
	o := Run(c.specFor(c.Scheds[0], files, []string{"transcode", "-v", c.Val, c.L.Main()}))
	if o.Outcome != simrt.OutReturned && o.Outcome != simrt.OutExit {
		return &Violation{Signature: "abnormal-end:" + o.Outcome, Msg: "transcode ended with " + o.Outcome + " " + o.PanicValue, Detail: o.PanicStack}, false
	}
	if !o.OK() {
		noteVacuous("ledger", o)
		return nil, true
	}
	cur, es, err := parseBeancount(o.Stdout)
	if err != nil {
		return &Violation{Signature: "unreadable-ledger", Msg: err.Error(), Detail: o.Stdout}, false
	}
	_ = cur
	open := map[string]bool{}
	prev := ""
	alAccounts := map[string]bool{}
	for _, a := range c.J.Accounts() {
		if isAL(a) {
			alAccounts[a] = true
		}
	}
	var got []string
	var known *Violation
	for _, e := range es {
		if e.Date < prev {
			return &Violation{Signature: "not-chronological", Msg: fmt.Sprintf("entry dated %s follows %s", e.Date, prev), Detail: o.Stdout}, false
		}
		prev = e.Date
		switch e.Kind {
		case "open":
			open[e.Account] = true
		case "close":
			if !open[e.Account] {
				return &Violation{Signature: "close-of-unopened", Msg: "close of " + e.Account + " which is not open"}, false
			}
			delete(open, e.Account)
		case "txn":
			sum := decimal.Zero
			var accs []string
			for _, p := range e.Txn.Posts {
				sum = sum.Add(p.Amount)
				accs = append(accs, p.Account)
				if !open[p.Account] {
					sig := "posting-to-unopened-account"
					isMirror := false
					for a := range alAccounts {
						if mirrorOf(a) == p.Account {
							isMirror = true
						}
					}
					if isMirror && strings.HasPrefix(e.Txn.Desc, "Adjust value of") {
						// recorded finding F15: keep checking everything else, report this last
						if known == nil {
							known = &Violation{Signature: "unopened-valuation-account", Msg: fmt.Sprintf("%s \"%s\": posting to %s, which has no open directive on or before that date", e.Date, e.Txn.Desc, p.Account)}
						}
						open[p.Account] = true
						continue
					}
					return &Violation{Signature: sig, Msg: fmt.Sprintf("%s \"%s\": posting to %s, which has no open directive on or before that date (or was closed)", e.Date, e.Txn.Desc, p.Account)}, false
				}
			}
			if !sum.IsZero() {
				return &Violation{Signature: "unbalanced-transaction", Msg: fmt.Sprintf("%s \"%s\": postings sum to %s %s", e.Date, e.Txn.Desc, sum, c.Val), Detail: o.Stdout}, false
			}
			sort.Strings(accs)
			got = append(got, e.Date+"|"+e.Txn.Desc+"|"+strings.Join(accs, ","))
		}
	}
	// expected transactions: user bookings (accruals expanded) ...
	var want []string
	exact := true
	for i := range c.J.Dirs {
		d := &c.J.Dirs[i]
		if d.Kind != "txn" {
			continue
		}
		if d.Accrual == nil {
			var accs []string
			for _, b := range d.Bookings {
				accs = append(accs, b.Credit, b.Debit)
			}
			sort.Strings(accs)
			want = append(want, d.Date.String()+"|"+d.Desc+"|"+strings.Join(accs, ","))
			continue
		}
		ps := d.Expand(i)
		for k := 0; k+1 < len(ps); k += 2 {
			accs := []string{ps[k].Account, ps[k+1].Account}
			sort.Strings(accs)
			want = append(want, ps[k].Date.String()+"|"+ps[k].Desc+"|"+strings.Join(accs, ","))
		}
	}
	// ... plus the daily value adjustments: for every journal day and every
	// non-zero A/L position in a commodity other than V whose price differs
	// from the previous journal day's
	rp := NewRefPrices(c.J)
	days := map[Day]bool{}
	posts := c.J.Postings()
	for _, d := range c.J.Dirs {
		days[d.Date] = true
	}
	for _, p := range posts {
		days[p.Date] = true
	}
	var ds []Day
	for d := range days {
		ds = append(ds, d)
	}
	sort.Slice(ds, func(a, b int) bool { return ds[a] < ds[b] })
	priceOn := func(d Day, com string) (decimal.Decimal, bool) {
		if com == c.Val {
			return decimal.NewFromInt(1), true
		}
		m := rp.Normalized(d, c.Val)
		if len(m[com]) == 0 {
			return decimal.Zero, false
		}
		return m[com][0], true
	}
	type ac struct{ a, c string }
	for i := 1; i < len(ds); i++ {
		qty := map[ac]Q{}
		for _, p := range posts {
			if p.Date < ds[i] && isAL(p.Account) && p.Com != c.Val {
				qty[ac{p.Account, p.Com}] += p.Qty
			}
		}
		for k, q := range qty {
			if q == 0 {
				continue
			}
			p0, ok0 := priceOn(ds[i-1], k.c)
			p1, ok1 := priceOn(ds[i], k.c)
			if !ok0 || !ok1 {
				exact = false
				continue
			}
			if !p0.Equal(p1) {
				accs := []string{k.a, mirrorOf(k.a)}
				sort.Strings(accs)
				want = append(want, fmt.Sprintf("%s|Adjust value of %s in account %s|%s", ds[i], k.c, k.a, strings.Join(accs, ",")))
			}
		}
	}
	sort.Strings(want)
	sort.Strings(got)
	if exact {
		if d := multisetDiff(want, got); d != "" {
			sig := "transaction-lost-or-duplicated"
			if !strings.Contains(d, "missing") {
				sig = "transaction-extra"
			} else if !strings.Contains(d, "extra") {
				sig = "transaction-lost"
			}
			return &Violation{Signature: sig, Msg: "the ledger's transactions are not the journal's valued transactions", Detail: d}, false
		}
	}
	if known != nil {
		return known, false
	}
	return nil, false
}
