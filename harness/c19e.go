package harness

import (
	"fmt"
	"sort"
	"strings"
	"time"

	"knutsim/simrt"

	"github.com/anishathalye/porcupine"
	"github.com/sboehler/knut/lib/model/account"
	"github.com/sboehler/knut/lib/model/commodity"
)

// C19 (e): the shared registries are linearizable interning tables. k simulated
// client tasks issue operations on one account.Registry and one
// commodity.Registry, interleaved at lock granularity (lock-yield policy 2);
// invoke/return events are stamped with the scheduler's global transition
// number; the history is checked with porcupine against a sequential model
// (name -> identity; currency flag set by TagCurrency).

type regOp struct {
	Kind   string // get getpath swap valacc shorten cget ctag ciscur
	Name   string
	Level  int
	Suffix int
}

type regOut struct {
	ID       int    // identity of the returned object (0: error/nil)
	Name     string // its name
	Segments string // its segments joined
	Flag     bool
	Err      bool
}

type regState struct {
	acc map[string]int
	com map[string]int
	cur map[string]bool
}

func (s regState) clone() regState {
	n := regState{acc: map[string]int{}, com: map[string]int{}, cur: map[string]bool{}}
	for k, v := range s.acc {
		n.acc[k] = v
	}
	for k, v := range s.com {
		n.com[k] = v
	}
	for k, v := range s.cur {
		n.cur[k] = v
	}
	return n
}

func swapName(n string) string {
	segs := strings.SplitN(n, ":", 2)
	sw := map[string]string{"Assets": "Liabilities", "Liabilities": "Assets", "Income": "Expenses", "Expenses": "Income", "Equity": "Equity"}
	segs[0] = sw[segs[0]]
	return strings.Join(segs, ":")
}

func validAccount(n string) bool {
	segs := strings.Split(n, ":")
	if _, ok := map[string]bool{"Assets": true, "Liabilities": true, "Equity": true, "Income": true, "Expenses": true}[segs[0]]; !ok {
		return false
	}
	for _, s := range segs[1:] {
		if s == "" {
			return false
		}
	}
	return true
}

// expectedName is the sequential specification of what each operation returns.
func expectedName(op regOp) (string, bool) {
	switch op.Kind {
	case "get", "getpath":
		return op.Name, validAccount(op.Name)
	case "swap":
		return swapName(op.Name), true
	case "valacc":
		return mirrorOf(op.Name), true
	case "shorten":
		segs := strings.Split(op.Name, ":")
		if op.Level == 0 {
			return "", true // hidden: nil
		}
		if op.Suffix >= len(segs) || op.Level > len(segs)-op.Suffix {
			return op.Name, true
		}
		return strings.Join(append(append([]string{}, segs[:op.Level]...), segs[len(segs)-op.Suffix:]...), ":"), true
	}
	return "", false
}

var regModel = porcupine.Model{
	Init: func() interface{} {
		return regState{acc: map[string]int{}, com: map[string]int{}, cur: map[string]bool{}}
	},
	Step: func(state, input, output interface{}) (bool, interface{}) {
		st := state.(regState)
		in := input.(regOp)
		out := output.(regOut)
		switch in.Kind {
		case "cget", "ctag", "ciscur":
			if out.Err {
				return false, st
			}
			ns := st.clone()
			if in.Kind == "ctag" {
				ns.cur[in.Name] = true
				return true, ns
			}
			if id, ok := st.com[in.Name]; ok {
				if id != out.ID {
					return false, st
				}
			} else {
				for _, v := range st.com {
					if v == out.ID {
						return false, st
					}
				}
				ns.com[in.Name] = out.ID
			}
			if in.Kind == "ciscur" && out.Flag != st.cur[in.Name] {
				return false, st
			}
			return true, ns
		}
		want, ok := expectedName(in)
		if !ok {
			return out.Err, st
		}
		if out.Err {
			return false, st
		}
		if want == "" {
			return out.ID == 0, st
		}
		if out.Name != want || out.Segments != want {
			return false, st
		}
		if id, ok := st.acc[want]; ok {
			return id == out.ID, st
		}
		for _, v := range st.acc {
			if v == out.ID {
				return false, st
			}
		}
		ns := st.clone()
		ns.acc[want] = out.ID
		return true, ns
	},
	Equal: func(a, b interface{}) bool {
		x, y := a.(regState), b.(regState)
		return fmt.Sprint(x.acc, x.com, x.cur) == fmt.Sprint(y.acc, y.com, y.cur)
	},
	DescribeOperation: func(input, output interface{}) string {
		return fmt.Sprintf("%+v -> %+v", input, output)
	},
}

var regNames = []string{"Assets:Bank", "Assets:Bank:Checking", "Liabilities:Card", "Income:Bank", "Expenses:Food:Out", "Equity:Equity", "Assets:Broker:US:Tech"}
var regComs = []string{"CHF", "USD", "AAPL"}

func genRegistryCase(r *simrt.Rand, c *Case) *Case {
	c.Sub = "registry"
	c.N = r.Intn(1 << 30)
	c.Scheds = []Sched{RandSched(r), RandSched(r), RandSched(r)}
	for i := range c.Scheds {
		c.Scheds[i].LockYield = 2
	}
	return c
}

func evalRegistry(c *Case) (*Violation, bool) {
	for si, s := range c.Scheds {
		r := simrt.NewRand(uint64(c.N))
		nclients := r.Range(2, 4)
		plans := make([][]regOp, nclients)
		for i := range plans {
			for k := r.Range(3, 9); k > 0; k-- {
				op := regOp{Name: regNames[r.Intn(len(regNames))]}
				switch r.Intn(9) {
				case 0, 1:
					op.Kind = "get"
				case 2:
					op.Kind = "getpath"
				case 3:
					op.Kind = "swap"
				case 4:
					op.Kind = "valacc"
				case 5:
					op.Kind = "shorten"
					op.Level = r.Range(0, 3)
					op.Suffix = r.Range(0, 2)
				case 6:
					op.Kind, op.Name = "cget", regComs[r.Intn(len(regComs))]
				case 7:
					op.Kind, op.Name = "ctag", regComs[r.Intn(len(regComs))]
				default:
					op.Kind, op.Name = "ciscur", regComs[r.Intn(len(regComs))]
				}
				plans[i] = append(plans[i], op)
			}
		}
		var ops []porcupine.Operation
		ids := map[interface{}]int{}
		idOf := func(p interface{}) int {
			if id, ok := ids[p]; ok {
				return id
			}
			ids[p] = len(ids) + 1
			return len(ids)
		}
		var seen []*account.Account
		sp := &Spec{Sched: s, Files: map[string]string{}}
		o := RunFunc(sp, func() {
			areg := account.NewRegistry()
			creg := commodity.NewCommodities()
			done := make(chan struct{})
			for ci := range plans {
				ci := ci
				go simrt.Task("registry-client", func() {
					for _, op := range plans[ci] {
						call := simrt.Now()
						var out regOut
						var a *account.Account
						var err error
						switch op.Kind {
						case "get":
							a, err = areg.Get(op.Name)
						case "getpath":
							a, err = areg.GetPath(strings.Split(op.Name, ":"))
						case "swap":
							a = areg.SwapType(areg.MustGet(op.Name))
						case "valacc":
							a = areg.ValuationAccountFor(areg.MustGet(op.Name))
						case "shorten":
							m := account.Shorten(areg, account.Mapping{{Level: op.Level, Suffix: op.Suffix}})
							a = m(areg.MustGet(op.Name))
						case "cget":
							cm, e := creg.Get(op.Name)
							err = e
							if cm != nil {
								out.ID = idOf(cm)
							}
						case "ctag":
							err = creg.TagCurrency(op.Name)
						case "ciscur":
							cm, e := creg.Get(op.Name)
							err = e
							if cm != nil {
								out.ID = idOf(cm)
								out.Flag = cm.IsCurrency
							}
						}
						if err != nil {
							out.Err = true
						}
						if a != nil {
							out.ID = idOf(a)
							out.Name = a.Name()
							out.Segments = strings.Join(a.Segments(), ":")
							seen = append(seen, a)
						}
						ret := simrt.Now()
						ops = append(ops, porcupine.Operation{ClientId: ci, Input: op, Call: call, Output: out, Return: ret})
					}
					simrt.Send("registry-client", done, struct{}{})
				})()
			}
			for range plans {
				simrt.Recv("registry-root", done)
			}
		})
		if o.Outcome != simrt.OutReturned {
			return &Violation{Signature: "registry-abnormal-end:" + o.Outcome, Msg: "registry clients ended with " + o.Outcome + " " + o.PanicValue, Detail: o.PanicStack}, false
		}
		// cross-invariant: what was handed out never changes
		for _, a := range seen {
			if strings.Join(a.Segments(), ":") != a.Name() {
				return &Violation{Signature: "registry-account-mutated", Msg: fmt.Sprintf("account %s now has segments %v", a.Name(), a.Segments())}, false
			}
		}
		sort.SliceStable(ops, func(i, j int) bool { return ops[i].Call < ops[j].Call })
		res := porcupine.CheckOperationsTimeout(regModel, ops, 10*time.Second)
		switch res {
		case porcupine.Illegal:
			var b strings.Builder
			for _, op := range ops {
				fmt.Fprintf(&b, "client %d [%d,%d] %+v -> %+v\n", op.ClientId, op.Call, op.Return, op.Input, op.Output)
			}
			return &Violation{Signature: "registry-not-linearizable", Msg: fmt.Sprintf("schedule %d: the recorded history of registry operations has no legal sequential order", si), Detail: b.String()}, false
		case porcupine.Unknown:
			Extra["porcupine_unknown"]++
		default:
			Extra["porcupine_ok"]++
			Extra["porcupine_ops"] += len(ops)
		}
	}
	return nil, false
}
