package harness

import (
	"fmt"
	"strings"

	"github.com/shopspring/decimal"

	"knutsim/simrt"
)

// C02: every cell of the unvalued balance equals an independent ledger
// computation, for every schedule and map order.
type c02 struct{}

func init() { Register(c02{}); Register(c01{}) }

func (c02) ID() string { return "C02" }

func (c02) Gen(r *simrt.Rand, idx int, tier string) *Case {
	g := DefaultGen()
	g.EquityAccrual = true
	g.InexactAccrual = true
	g.PAccrual = 0.1
	c := &Case{Sub: "ledger", Gen: &g}
	c.J = Gen(r, g)
	c.L = RandLayout(r, c.J, 5)
	c.Today = (anchors[r.Intn(len(anchors))] + Day(r.Range(0, 1200))).String()
	f := GenBalFlags(r, c.J, FlagOpts{})
	c.Args = f.Args()
	c.N = 0
	c.Scheds = []Sched{RandSched(r)}
	if idx%4 == 0 {
		c.Scheds = append(c.Scheds, CanonSched())
	}
	c.Note = "flags are re-parsed from Args by the reference"
	// a journal that never mentions Equity:Equity: period closing creates that
	// account while the report is being computed (the flags, filters included,
	// were drawn while the counter-account still had that name)
	if r.P(0.15) && !hasAccount(c.J, "Equity:Opening") {
		c.J.RenameAccount("Equity:Equity", "Equity:Opening")
		c.Note += "; Equity:Equity renamed to Equity:Opening"
		Ctr.Probes["c02.no-equity-equity"]++
	}
	return c
}

func (c02) Eval(c *Case) (*Violation, bool) {
	f, err := ParseBalArgs(c.Args)
	if err != nil {
		panic(InfraError{"cannot parse own flags: " + err.Error()})
	}
	today, _ := ParseDay(c.Today)
	files := c.L.Files(c.J)
	argv := append([]string{"balance", "--color=false", "--digits", "8"}, c.Args...)
	argv = append(argv, c.L.Main())
	vac := true
	for _, s := range c.Scheds {
		o := Run(c.specFor(s, files, argv))
		if !o.OK() {
			noteVacuous("ledger", o)
			if o.Outcome != simrt.OutExit {
				return &Violation{Signature: "abnormal-end:" + o.Outcome, Msg: "balance ended with " + o.Outcome + " " + o.PanicValue, Detail: o.PanicStack}, false
			}
			continue
		}
		t, err := ParseBalText(o.Stdout)
		if err != nil {
			return &Violation{Signature: "unreadable-table", Msg: err.Error(), Detail: o.Stdout}, false
		}
		rl, err := BuildRefLedger(c.J, f, today, t.Dates)
		if err != nil {
			continue
		}
		vac = vac && len(t.Dates) == 0
		if v := CompareLedger(t, rl, f, false); v != nil {
			v.Detail = fmt.Sprintf("argv: %v\n%s", argv, o.Stdout)
			return v, false
		}
		if v := checkTotals(t, ""); v != nil {
			v.Detail = o.Stdout
			return v, false
		}
	}
	return nil, vac
}

// checkTotals: Total rows are the column sums of their section and
// Delta = Total(A+L) - Total(E+I+E) as displayed.
func checkTotals(t *BalTable, val string) *Violation {
	n := len(t.Dates)
	type key struct{ sec, com string }
	sums := map[key][]decimalT{}
	for _, r := range t.Rows {
		k := key{r.Section, r.Com}
		if r.Com == "" && t.HasComm {
			continue
		}
		if val != "" && t.HasComm {
			// a valued report with commodity details: all lines are amounts in
			// the valuation commodity and the totals are printed under its name
			k.com = val
		}
		if sums[k] == nil {
			sums[k] = make([]decimalT, n)
		}
		for i := 0; i < n; i++ {
			sums[k][i] = sums[k][i].Add(r.Vals[i])
		}
	}
	coms := map[string]bool{}
	for k := range sums {
		coms[k.com] = true
	}
	for c := range t.TotalAL {
		coms[c] = true
	}
	for c := range t.TotalEI {
		coms[c] = true
	}
	for c := range t.Delta {
		coms[c] = true
	}
	for c := range coms {
		for i := 0; i < n; i++ {
			al, ei := zeroDec, zeroDec
			if s := sums[key{"AL", c}]; s != nil {
				al = s[i]
			}
			if s := sums[key{"EIE", c}]; s != nil {
				ei = s[i]
			}
			tal, tei, dl := zeroDec, zeroDec, zeroDec
			if v := t.TotalAL[c]; v != nil {
				tal = v[i]
			}
			if v := t.TotalEI[c]; v != nil {
				tei = v[i]
			}
			if v := t.Delta[c]; v != nil {
				dl = v[i]
			}
			if !tal.Equal(al) {
				return &Violation{Signature: "wrong-total", Msg: fmt.Sprintf("Total (A+L) %s %s shows %s, rows sum to %s", c, t.Dates[i], tal, al)}
			}
			if !tei.Equal(ei) {
				return &Violation{Signature: "wrong-total", Msg: fmt.Sprintf("Total (E+I+E) %s %s shows %s, rows sum to %s", c, t.Dates[i], tei, ei)}
			}
			if !dl.Equal(tal.Sub(tei)) {
				return &Violation{Signature: "wrong-delta", Msg: fmt.Sprintf("Delta %s %s shows %s, totals give %s", c, t.Dates[i], dl, tal.Sub(tei))}
			}
		}
	}
	return nil
}

// C01: with nothing filtered or hidden, Delta is zero everywhere.
type c01 struct{}

func (c01) ID() string { return "C01" }

func (c01) Gen(r *simrt.Rand, idx int, tier string) *Case {
	g := DefaultGen()
	g.EquityAccrual = true
	g.InexactAccrual = true
	g.PAccrual = 0.1
	valued := idx%2 == 1
	c := &Case{Sub: "delta-unvalued", Gen: &g}
	if valued {
		c.Sub = "delta-valued"
		g.Prices = "tree"
		g.MaxCom = 4
	}
	deep := valued && idx%20 == 7
	if deep {
		// quantities with 12-18 decimals (wei-precision): nothing may be asserted or closed on them
		g.PAssert, g.PClose, g.PAccrual = 0, 0, 0
	}
	if idx%60 == 13 {
		// a day with hundreds of bookings, several schedules
		g.MinTxn, g.MaxTxn, g.BusyDay = 350, 600, true
		g.PAccrual, g.PAssert = 0, 0.02
	}
	c.J = Gen(r, g)
	if deep {
		c.Note = "deep"
		for i := range c.J.Dirs {
			for k := range c.J.Dirs[i].Bookings {
				c.J.Dirs[i].Bookings[k].Deep = fmt.Sprintf("%0*d", r.Range(5, 14), r.Intn(99999)+1)
			}
		}
	}
	c.L = RandLayout(r, c.J, 4)
	c.Today = (anchors[r.Intn(len(anchors))] + Day(r.Range(0, 1200))).String()
	// a third of the cases shorten accounts (-m with a level of at least 1) or move them to the
	// other section (--remap): nothing is filtered out or hidden by that
	f := GenBalFlags(r, c.J, FlagOpts{NoFilters: true, NoMapping: idx%3 != 2, KeepAll: true, Valued: valued})
	if valued && len(c.J.Commodities()) < 2 {
		f.Val = ""
	}
	c.Args = f.Args()
	if r.P(0.1) && !hasAccount(c.J, "Equity:Opening") {
		// closing (and nothing else) creates Equity:Equity
		c.J.RenameAccount("Equity:Equity", "Equity:Opening")
		Ctr.Probes["c01.no-equity-equity"]++
	}
	c.Scheds = []Sched{RandSched(r)}
	if g.BusyDay {
		c.Scheds = append(c.Scheds, RandSched(r), RandSched(r), RandSched(r))
	}
	c.N = idx
	return c
}

func (c01) Eval(c *Case) (*Violation, bool) {
	files := c.L.Files(c.J)
	digits := "8"
	if c.Note == "deep" {
		digits = "20" // quantities with up to 18 decimals: nothing may be rounded away
	}
	argv := append([]string{"balance", "--color=false", "--digits", digits}, c.Args...)
	argv = append(argv, c.L.Main())
	vac := true
	for _, s := range c.Scheds {
		o := Run(c.specFor(s, files, argv))
		if !o.OK() {
			noteVacuous(c.Sub, o)
			continue
		}
		t, err := ParseBalText(o.Stdout)
		if err != nil {
			return &Violation{Signature: "unreadable-table", Msg: err.Error(), Detail: o.Stdout}, false
		}
		if len(t.Dates) > 0 && len(t.Rows) > 0 {
			vac = false
		}
		for com, vals := range t.Delta {
			for i, v := range vals {
				if !v.IsZero() {
					return &Violation{Signature: c.Sub + ":delta-nonzero", Msg: fmt.Sprintf("Delta %q at %s is %s", com, t.Dates[i], v), Detail: fmt.Sprintf("argv: %v\n%s", argv, o.Stdout)}, false
				}
			}
		}
		fl, _ := ParseBalArgs(c.Args)
		if v := checkTotals(t, fl.Val); v != nil {
			v.Detail = o.Stdout
			return v, false
		}
	}
	if c.N%10 == 3 && !vac {
		// the same report as CSV with an explicit number of digits: Delta is zero there as well
		cv := append([]string{"balance", "--color=false", "--csv", "--digits", fmt.Sprint(c.N % 4)}, c.Args...)
		cv = append(cv, c.L.Main())
		o := Run(c.specFor(c.Scheds[0], files, cv))
		if o.OK() {
			for _, l := range strings.Split(o.Stdout, "\n") {
				f := strings.Split(l, ",")
				if len(f) < 3 || f[0] != "Delta" {
					continue
				}
				for _, x := range f[2:] {
					x = strings.TrimSpace(x)
					if x == "" {
						continue
					}
					if v, err := decimal.NewFromString(x); err == nil && !v.IsZero() {
						return &Violation{Signature: c.Sub + ":delta-nonzero:csv", Msg: fmt.Sprintf("Delta line of the CSV report: %s", l), Detail: fmt.Sprintf("argv: %v\n%s", cv, o.Stdout)}, false
					}
				}
			}
		}
	}
	return nil, vac
}

func hasAccount(j *Journal, a string) bool {
	for _, x := range j.Accounts() {
		if x == a {
			return true
		}
	}
	return false
}
