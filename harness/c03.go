package harness

import (
	"fmt"
	"sort"
	"strings"

	"knutsim/simrt"

	"github.com/shopspring/decimal"
)

// C03: valued balances are mark-to-market at the latest known price.
type c03 struct{}

func init() { Register(c03{}) }

func (c03) ID() string { return "C03" }

func (c03) Gen(r *simrt.Rand, idx int, tier string) *Case {
	g := DefaultGen()
	g.Prices = "tree"
	if idx%7 == 5 {
		g.PNegPrice = 0.1
	}
	g.MaxCom = 4
	g.MaxTxn = 20
	g.MaxSpan = 400
	g.PAccrual = 0.04
	g.PriceGap = idx%5 == 4
	c := &Case{Sub: "valued", Gen: &g, Today: "2030-01-01"}
	if g.PriceGap {
		c.Sub = "price-gap"
	}
	var cs []string
	for try := 0; ; try++ {
		c.J = Gen(r, g)
		cs = c.J.Commodities()
		if len(cs) >= 2 || try > 20 {
			break
		}
	}
	if len(cs) == 0 {
		return nil
	}
	c.L = RandLayout(r, c.J, 5)
	f := &BalFlags{Val: cs[r.Intn(len(cs))]}
	if idx%2 == 0 {
		no := false
		f.Close = &no
	} else if r.P(0.5) {
		yes := true
		f.Close = &yes // (closing is also the default)
	}
	_, max, _ := c.J.TxnSpan()
	if r.P(0.5) {
		d := max + Day(r.Range(0, 20))
		if r.P(0.4) {
			min, _, _ := c.J.TxnSpan()
			d = min + Day(r.Intn(int(max-min)+1))
		}
		f.To = &d
	}
	if r.P(0.7) {
		f.Interval = r.Range(IvWeekly, IvYearly)
		f.Last = r.Range(1, 6)
	}
	if r.P(0.5) {
		f.ShowCom = "."
	}
	f.SortAlpha = r.P(0.5)
	if r.P(0.4) {
		m := Mapping{Level: r.Range(1, 3), Regex: "^(Assets|Liabilities)"}
		if r.P(0.6) {
			m.HasSuffix = true
			m.Suffix = r.Range(0, 2)
		}
		f.Mappings = append(f.Mappings, m)
		c.Sub += "+map"
	}
	if accs := c.J.Accounts(); r.P(0.15) && len(accs) > 0 {
		// an account filter: positions, their mirrored income accounts and counter-accounts pass it or not each on its own
		f.Accounts = append(f.Accounts, []string{"^Income", "^(Assets|Income)", "^Equity", pickRegex(r, accs), pickRegex(r, accs)}[r.Intn(5)])
		c.Sub += "+filter"
	}
	if accs := c.J.Accounts(); r.P(0.15) && len(accs) > 0 {
		// --remap shows the matching accounts under the opposite type; values are unaffected
		f.Remap = append(f.Remap, pickRegex(r, accs))
		c.Sub += "+remap"
	}
	c.Args = f.Args()
	if r.P(0.1) && !hasAccount(c.J, "Equity:Opening") {
		// closing (and nothing else) creates Equity:Equity; the filters were drawn with the old name
		c.J.RenameAccount("Equity:Equity", "Equity:Opening")
		Ctr.Probes["c03.no-equity-equity"]++
	}
	c.Scheds = []Sched{RandSched(r)}
	if idx%3 == 0 {
		c.Scheds = append(c.Scheds, RandSched(r))
	}
	return c
}

func mirrorOf(a string) string {
	i := strings.IndexByte(a, ':')
	if i < 0 {
		return "Income"
	}
	return "Income" + a[i:]
}

var eps8 = decimal.New(1, -8)

func (c03) Eval(c *Case) (*Violation, bool) {
	f, err := ParseBalArgs(c.Args)
	if err != nil {
		panic(InfraError{err.Error()})
	}
	rx, _ := compileAll(f)
	v := f.Val
	rp := NewRefPrices(c.J)
	posts := c.J.Postings()
	sort.SliceStable(posts, func(a, b int) bool { return posts[a].Date < posts[b].Date })
	cache := map[Day]map[string][]decimal.Decimal{}
	priceAt := func(d Day, com string) (decimal.Decimal, bool) {
		if com == v {
			return decimal.NewFromInt(1), true
		}
		m, ok := cache[d]
		if !ok {
			m = rp.Normalized(d, v)
			cache[d] = m
		}
		ps := m[com]
		if len(ps) == 0 {
			return decimal.Zero, false
		}
		return ps[0], true
	}
	missing := ""
	for _, p := range posts {
		if p.Qty == 0 || p.Com == v {
			continue
		}
		if _, ok := priceAt(p.Date, p.Com); !ok {
			missing = fmt.Sprintf("%s on %s", p.Com, p.Date)
			break
		}
	}
	files := c.L.Files(c.J)
	argv := append([]string{"balance", "--color=false", "--digits", "8"}, c.Args...)
	argv = append(argv, c.L.Main())
	// journal days: needed only for the tolerance
	days := map[Day]bool{}
	for _, d := range c.J.Dirs {
		days[d.Date] = true
	}
	for _, p := range posts {
		days[p.Date] = true
	}
	for _, s := range c.Scheds {
		o := Run(c.specFor(s, files, argv))
		if o.Outcome != simrt.OutReturned && o.Outcome != simrt.OutExit {
			return &Violation{Signature: "abnormal-end:" + o.Outcome, Msg: "balance -v ended with " + o.Outcome + " " + o.PanicValue, Detail: o.PanicStack}, false
		}
		if missing != "" {
			if o.OK() {
				return &Violation{Signature: "missing-price-not-an-error", Msg: "a price is needed for " + missing + " but the report is printed", Detail: o.Stdout}, false
			}
			if o.Stdout != "" {
				return &Violation{Signature: "stdout-on-failure", Msg: "failing valuation wrote to stdout"}, false
			}
			continue
		}
		if !o.OK() {
			return &Violation{Signature: "valuation-fails-with-prices:" + rejectClass(o.Stderr), Msg: "every needed price exists but balance -v fails", Detail: o.Stderr}, false
		}
		t, err := ParseBalText(o.Stdout)
		if err != nil {
			return &Violation{Signature: "unreadable-table", Msg: err.Error(), Detail: o.Stdout}, false
		}
		if len(t.Dates) == 0 {
			return nil, true
		}
		w, _ := window(c.J, f, 0)
		if f.To == nil {
			_, jmax, _ := c.J.TxnSpan()
			w.End = jmax
		}
		// expected[row][com][i], tolerance[row][com][i]
		type cell struct {
			v   decimal.Decimal
			tol int
		}
		exp := map[string]map[string][]cell{}
		add := func(row, com string, i int, val decimal.Decimal, tol int) {
			if row == "" {
				return
			}
			if !t.HasComm {
				com = ""
			}
			if exp[row] == nil {
				exp[row] = map[string][]cell{}
			}
			if exp[row][com] == nil {
				exp[row][com] = make([]cell, len(t.Dates))
			}
			exp[row][com][i].v = exp[row][com][i].v.Add(val)
			exp[row][com][i].tol += tol
		}
		type rc struct{ row, com string }
		// rowsAt: what every row shows (display sign) for the bookings from the window
		// start up to day e, without period closing
		rowsAt := func(e Day, filtered bool) map[rc]cell {
			out := map[rc]cell{}
			put := func(acc, com string, val decimal.Decimal, tol int) {
				// --account filters each posting by its own account: the position, the mirrored
				// income account of its value adjustments, the counter-account of a booking
				if filtered && !matchAny(rx, f.Accounts, acc) {
					return
				}
				row := mapAccount(acc, f, rx)
				if row == "" {
					return
				}
				k := rc{row, com}
				x := out[k]
				x.v = x.v.Add(val)
				x.tol += tol
				out[k] = x
			}
			type ac struct{ a, c string }
			qty := map[ac]Q{}
			booked := map[ac]decimal.Decimal{}
			cnt := map[ac]int{}
			ndays := 0
			for d := range days {
				if d <= e {
					ndays++
				}
			}
			for _, p := range posts {
				if p.Date > e || p.Date < w.Start || p.Date > w.End {
					continue
				}
				k := ac{p.Account, p.Com}
				qty[k] += p.Qty
				pr, _ := priceAt(p.Date, p.Com)
				booked[k] = booked[k].Add(qToDec(p.Qty).Mul(pr))
				cnt[k]++
			}
			for k, q := range qty {
				if isAL(k.a) {
					pe := e
					if pe > w.End {
						pe = w.End
					}
					pr, ok := priceAt(pe, k.c)
					if !ok {
						continue
					}
					val := qToDec(q).Mul(pr)
					put(k.a, k.c, val, cnt[k]+ndays+2)
					gain := val.Sub(booked[k])
					// credited to the mirrored income account: raw -gain, displayed +gain
					put(mirrorOf(k.a), k.c, gain, cnt[k]+ndays+2)
				} else {
					// non-A/L rows are displayed negated
					put(k.a, k.c, booked[k].Neg(), cnt[k]+1)
				}
			}
			return out
		}
		// period closing: income, expense (and mirrored income) rows restart at each period
		// start; what they had accumulated before sits on Equity:Equity from then on
		closing := f.closing()
		starts := make([]Day, len(t.Dates))
		for i := range t.Dates {
			if i > 0 {
				starts[i] = t.Dates[i-1] + 1
			} else {
				starts[0] = w.Start
				if f.Interval != IvOnce {
					if ps := periodStart(t.Dates[0], f.Interval); ps > starts[0] {
						starts[0] = ps
					}
				}
			}
		}
		equityRow := mapAccount("Equity:Equity", f, rx)
		equityShown := matchAny(rx, f.Accounts, "Equity:Equity") && equityRow != ""
		for i, e := range t.Dates {
			cur := rowsAt(e, true)
			if closing && starts[i]-1 >= w.Start {
				// the rows that pass the filter restart ...
				for k, x := range rowsAt(starts[i]-1, true) {
					if isAL(k.row) || k.row == equityRow {
						continue
					}
					c0 := cur[k]
					c0.v = c0.v.Sub(x.v)
					c0.tol += x.tol
					cur[k] = c0
				}
				// ... and Equity:Equity, if it is shown, carries what every income and expense
				// account had accumulated, whether or not those accounts pass the filter
				if equityShown {
					for k, x := range rowsAt(starts[i]-1, false) {
						if isAL(k.row) || k.row == equityRow {
							continue
						}
						ek := rc{equityRow, k.com}
						e0 := cur[ek]
						e0.v = e0.v.Add(x.v)
						e0.tol += x.tol
						cur[ek] = e0
					}
				}
			}
			for k, x := range cur {
				add(k.row, k.com, i, x.v, x.tol)
			}
		}
		// the text is silent on whether other equity accounts are closed too (knut closes
		// them): when there are any, equity rows are not compared under closing
		skipEquity := false
		if closing {
			for _, p := range posts {
				if strings.HasPrefix(p.Account, "Equity") && p.Account != "Equity:Equity" {
					skipEquity = true
				}
			}
		}
		if f.Diff {
			return nil, true
		}
		shown := map[string]map[string][]decimal.Decimal{}
		for _, r := range t.Rows {
			if t.HasComm && r.Com == "" {
				continue
			}
			if shown[r.Path] == nil {
				shown[r.Path] = map[string][]decimal.Decimal{}
			}
			shown[r.Path][r.Com] = r.Vals
		}
		rows := map[string]bool{}
		for r := range exp {
			rows[r] = true
		}
		for r := range shown {
			rows[r] = true
		}
		var rs []string
		for r := range rows {
			rs = append(rs, r)
		}
		sort.Strings(rs)
		for _, r := range rs {
			if skipEquity && strings.HasPrefix(r, "Equity") {
				continue
			}
			coms := map[string]bool{}
			for cm := range exp[r] {
				coms[cm] = true
			}
			for cm := range shown[r] {
				coms[cm] = true
			}
			for cm := range coms {
				for i := range t.Dates {
					want, tol := decimal.Zero, 2
					if e := exp[r][cm]; e != nil {
						want, tol = e[i].v, e[i].tol+2
					}
					got := decimal.Zero
					if sv := shown[r][cm]; sv != nil {
						got = sv[i]
					}
					if got.Sub(want).Abs().GreaterThan(eps8.Mul(decimal.NewFromInt(int64(tol)))) {
						kind := "wrong-value"
						if exp[r] == nil {
							kind = "value-on-unexpected-row"
						} else if shown[r] == nil {
							kind = "expected-row-missing"
						}
						return &Violation{Signature: kind, Msg: fmt.Sprintf("row %s / %s / %s shows %s, mark-to-market says %s (tolerance %d e-8)", r, cm, t.Dates[i], got, want.Truncate(8), tol), Detail: fmt.Sprintf("argv: %v\n%s", argv, o.Stdout)}, false
					}
				}
			}
		}
		if v := checkTotals(t, f.Val); v != nil {
			v.Detail = o.Stdout
			return v, false
		}
	}
	return nil, false
}
