// Package harness drives the instrumented knut under knutsim: workloads,
// reference models, oracles and the per-property checks.
package harness

import (
	"fmt"
	"os"
	"sort"
	"testing"
	"testing/synctest"
	"time"

	"knutsim/simrt"

	"github.com/sboehler/knut/cmd"

	_ "github.com/sboehler/knut/cmd/importer/cumulus"
	_ "github.com/sboehler/knut/cmd/importer/interactivebrokers"
	_ "github.com/sboehler/knut/cmd/importer/postfinance"
	_ "github.com/sboehler/knut/cmd/importer/revolut"
	_ "github.com/sboehler/knut/cmd/importer/revolut2"
	_ "github.com/sboehler/knut/cmd/importer/supercard"
	_ "github.com/sboehler/knut/cmd/importer/swisscard"
	_ "github.com/sboehler/knut/cmd/importer/swisscard2"
	_ "github.com/sboehler/knut/cmd/importer/swissquote"
	_ "github.com/sboehler/knut/cmd/importer/viac"
	_ "github.com/sboehler/knut/cmd/importer/wise"
)

// Sched holds everything about a run that is not the workload: the choice
// stream and the swarm knobs.
type Sched struct {
	Seed      uint64   `json:"seed"`
	Tape      []uint32 `json:"tape,omitempty"` // replay: overrides Seed
	MapSeed   uint64   `json:"map_seed"`
	MapMode   int      `json:"map_mode"`
	LockYield int      `json:"lock_yield"`
	Bias      int      `json:"bias"`
	Workers   int      `json:"workers"`
}

// Spec is one simulated execution of one knut command.
type Spec struct {
	Files        map[string]string   `json:"files"`
	Modes        map[string]uint32   `json:"modes,omitempty"`
	ReadOnlyDirs []string            `json:"ro_dirs,omitempty"`
	Links        map[string]string   `json:"links,omitempty"`
	Argv         []string            `json:"argv"`
	Today        string              `json:"today,omitempty"`
	Sched        Sched               `json:"sched"`
	Faults       map[int]simrt.Fault `json:"faults,omitempty"`
	MaxSteps     int                 `json:"max_steps,omitempty"`
	MaxTasks     int                 `json:"max_tasks,omitempty"`
	KeepEvents   bool                `json:"keep_events,omitempty"`
	StdoutFault  *simrt.StdoutFault  `json:"stdout_fault,omitempty"`
}

// Out is what one run produced.
type Out struct {
	*simrt.Result
	FS      map[string]string
	Trace   []simrt.FsOp
	Fired   map[string]int
	WallNs  int64
	BubbleX string // trouble tearing the bubble down (leaked goroutines)
}

// global counters for evidence
type Counters struct {
	Runs        int
	Steps       int
	Outcomes    map[string]int
	Probes      map[string]int
	Faults      map[string]int
	EventHashes map[uint64]struct{}
	MaxTasks    int
	// Digest folds, in order, the event log hash, exit status and output of
	// every simulated run of this process: the determinism self-test compares it
	// across processes and GOMAXPROCS values.
	Digest uint64
}

func NewCounters() *Counters {
	return &Counters{Outcomes: map[string]int{}, Probes: map[string]int{}, Faults: map[string]int{}, EventHashes: map[uint64]struct{}{}}
}

var Ctr = NewCounters()

func (c *Counters) add(o *Out) {
	if Shrinking {
		return
	}
	c.Runs++
	c.Steps += o.Steps
	c.Outcomes[o.Outcome]++
	for k, v := range o.Probes {
		c.Probes[k] += v
	}
	for k, v := range o.Fired {
		c.Faults[k] += v
	}
	c.EventHashes[o.EventHash] = struct{}{}
	c.Digest = simrt.Mix(c.Digest, o.EventHash, uint64(o.ExitCode), simrt.MixString(o.Outcome), simrt.MixString(o.Stdout), uint64(o.Steps))
	// stderr is left out: knut prints Go maps keyed by pointers in some
	// diagnostics ("no price found for X in map[...]"), whose order follows
	// addresses; diagnostics' wording is not part of any property
	if o.Tasks > c.MaxTasks {
		c.MaxTasks = o.Tasks
	}
}

// InfraError is raised (as a panic) when the simulator itself misbehaves; the
// worker turns it into exit status 2, never into a verdict.
type InfraError struct{ Msg string }

func (e InfraError) Error() string { return "infrastructure: " + e.Msg }

var theT *testing.T

// Standard output and error of the simulated command: the os.Stdout/os.Stderr
// variables are pointed at two scratch files for the duration of a run, which
// captures knut's own output as well as what uninstrumented libraries (cobra's
// usage and error texts) print, with the real routing between the two streams.
var capOut, capErr *os.File

func capFiles() (*os.File, *os.File) {
	if capOut == nil {
		dir := "/dev/shm"
		if _, err := os.Stat(dir); err != nil {
			dir = os.TempDir()
		}
		var err error
		if capOut, err = os.CreateTemp(dir, "knutsim-out-"); err != nil {
			panic(InfraError{err.Error()})
		}
		if capErr, err = os.CreateTemp(dir, "knutsim-err-"); err != nil {
			panic(InfraError{err.Error()})
		}
		os.Remove(capOut.Name())
		os.Remove(capErr.Name())
	}
	for _, f := range []*os.File{capOut, capErr} {
		f.Truncate(0)
		f.Seek(0, 0)
	}
	return capOut, capErr
}

func readCap(f *os.File, n int64) string {
	if n <= 0 {
		return ""
	}
	b := make([]byte, n)
	k, _ := f.ReadAt(b, 0)
	return string(b[:k])
}

// Run executes one spec inside its own synctest bubble.
func Run(spec *Spec) *Out { return RunFunc(spec, nil) }

// RunFunc is Run with a custom root function (library-level drivers) instead
// of the cobra command.
func RunFunc(spec *Spec, root func()) *Out {
	out := &Out{}
	start := time.Now()
	guardRunStart(spec)
	defer guardRunEnd()
	func() {
		defer func() {
			if r := recover(); r != nil {
				// synctest panics when goroutines are left blocked at the end of the bubble
				out.BubbleX = fmt.Sprint(r)
			}
		}()
		synctest.Test(theT, func(t *testing.T) {
			if spec.Today != "" {
				if d, err := time.Parse("2006-01-02", spec.Today); err == nil {
					// noon, so that Local() conversions cannot move the date
					time.Sleep(time.Until(d.Add(12 * time.Hour)))
				}
			}
			fs := simrt.NewFS()
			names := make([]string, 0, len(spec.Files))
			for n := range spec.Files {
				names = append(names, n)
			}
			sort.Strings(names)
			for _, n := range names {
				m := os.FileMode(0o644)
				if mm, ok := spec.Modes[n]; ok {
					m = os.FileMode(mm)
				}
				fs.Put(n, spec.Files[n], m)
			}
			for l, t := range spec.Links {
				fs.PutLink(l, t)
			}
			for _, d := range spec.ReadOnlyDirs {
				fs.ReadOnlyDirs[d] = true
			}
			for k, v := range spec.Faults {
				fs.Plan[k] = v
			}
			var st *simrt.Stream
			if spec.Sched.Tape != nil || spec.Sched.Seed == 0 {
				st = simrt.ReplayStream(spec.Sched.Tape)
			} else {
				st = simrt.NewStream(spec.Sched.Seed)
			}
			fo, fe := capFiles()
			var nOut, nErr int64
			realOut, realErr := os.Stdout, os.Stderr
			os.Stdout, os.Stderr = fo, fe
			defer func() {
				os.Stdout, os.Stderr = realOut, realErr
				if out.Result != nil {
					out.Result.Stdout = readCap(fo, nOut)
					out.Result.Stderr = readCap(fe, nErr)
				}
			}()
			cfg := simrt.Config{
				OnFinish: func() {
					nOut, _ = fo.Seek(0, 1)
					nErr, _ = fe.Seek(0, 1)
				},
				Sched: st, MapSeed: spec.Sched.MapSeed, MapMode: spec.Sched.MapMode, LockYield: spec.Sched.LockYield,
				Bias: spec.Sched.Bias, Workers: spec.Sched.Workers, MaxSteps: spec.MaxSteps, MaxTasks: spec.MaxTasks,
				FS: fs, Wait: synctest.Wait, KeepEvents: spec.KeepEvents, StdoutFault: spec.StdoutFault,
			}
			argv := spec.Argv
			if root != nil {
				out.Result = simrt.Run(cfg, root)
				out.FS = fs.Snapshot()
				out.Trace = fs.Trace
				out.Fired = fs.Fired
				return
			}
			out.Result = simrt.Run(cfg, func() {
				c := cmd.CreateCmd("sim")
				c.SetArgs(argv)
				if err := c.Execute(); err != nil {
					fmt.Fprintln(c.ErrOrStderr(), err)
					simrt.Exit(1)
				}
			})
			out.FS = fs.Snapshot()
			out.Trace = fs.Trace
			out.Fired = fs.Fired
		})
	}()
	out.WallNs = time.Since(start).Nanoseconds()
	if out.Result == nil {
		panic(InfraError{"run produced no result: " + out.BubbleX})
	}
	if out.Outcome == simrt.OutInfra {
		panic(InfraError{out.InfraMsg})
	}
	Ctr.add(out)
	return out
}

// Failed reports whether the command ended unsuccessfully in the ordinary way.
func (o *Out) Failed() bool { return o.Outcome == simrt.OutExit && o.ExitCode != 0 }

// OK reports whether the command succeeded.
func (o *Out) OK() bool {
	return o.Outcome == simrt.OutReturned || (o.Outcome == simrt.OutExit && o.ExitCode == 0)
}
