package harness

import (
	"fmt"
	"math"
	"regexp"
	"sort"
	"strconv"
	"strings"

	"knutsim/simrt"

	"github.com/shopspring/decimal"
)

// C20: portfolio analytics agree with the valued balance.
type c20 struct{}

func init() { Register(c20{}) }

func (c20) ID() string { return "C20" }

// treeRow is a row of a text table whose first column is an indented tree.
type treeRow struct {
	Path  []string
	Cells []string
}

func parseTreeTable(s, firstHeader string) (header []string, rows []treeRow, err error) {
	var stack []string
	seenHeader := false
	for ln, line := range strings.Split(s, "\n") {
		if line == "" || strings.HasPrefix(line, "+") {
			continue
		}
		if !strings.HasPrefix(line, "|") {
			return nil, nil, fmt.Errorf("line %d: not a table row: %q", ln+1, line)
		}
		cells := strings.Split(strings.TrimSuffix(line[1:], "|"), "|")
		if !seenHeader {
			seenHeader = true
			if strings.TrimSpace(cells[0]) != firstHeader {
				return nil, nil, fmt.Errorf("header %q expected: %q", firstHeader, line)
			}
			for _, c := range cells[1:] {
				header = append(header, strings.TrimSpace(c))
			}
			continue
		}
		name := strings.TrimSpace(cells[0])
		if name == "" {
			continue
		}
		lead := len(cells[0]) - len(strings.TrimLeft(cells[0], " "))
		depth := (lead - 1) / 2
		if depth > len(stack) {
			return nil, nil, fmt.Errorf("line %d: indentation jump", ln+1)
		}
		stack = append(stack[:depth], name)
		r := treeRow{Path: append([]string{}, stack...)}
		for _, c := range cells[1:] {
			r.Cells = append(r.Cells, strings.TrimSpace(c))
		}
		rows = append(rows, r)
	}
	if !seenHeader {
		return nil, nil, fmt.Errorf("no header")
	}
	return header, rows, nil
}

func (c20) Gen(r *simrt.Rand, idx int, tier string) *Case {
	c := &Case{Today: "2030-01-01"}
	subs := []string{"weights", "returns-periods", "returns-flows-only", "returns-noflows", "weights-universe"}
	c.Sub = subs[idx%len(subs)]
	c.Scheds = []Sched{RandSched(r)}
	switch c.Sub {
	case "weights", "weights-universe", "returns-periods":
		g := DefaultGen()
		g.Prices = "tree"
		g.MaxCom = 4
		g.MaxTxn = 16
		g.MaxSpan = 300
		g.PAccrual = 0
		c.Gen = &g
		for try := 0; try < 20; try++ {
			c.J = Gen(r, g)
			if len(c.J.Commodities()) >= 2 {
				break
			}
		}
		cs := c.J.Commodities()
		if len(cs) == 0 {
			return nil
		}
		c.Val = cs[r.Intn(len(cs))]
		min, max, _ := c.J.TxnSpan()
		iv := r.Range(IvWeekly, IvYearly)
		to := max + Day(r.Range(0, 40))
		if r.P(0.3) {
			to = min + Day(r.Intn(int(max-min)+1))
		}
		c.Args = []string{ivFlag[iv], "--to", to.String()}
		if r.P(0.3) && c.Sub == "returns-periods" {
			// weights are compared with holdings; with a later --from the balance shows changes only
			c.Args = append(c.Args, "--from", (min + Day(r.Intn(int(max-min)+1))).String())
		}
		if len(partition(min, to, iv, 0)) > 30 {
			c.Args = append(c.Args, "--last", strconv.Itoa(r.Range(2, 8)))
		}
		if c.Sub == "weights-universe" {
			classes := []string{"Cash", "Stocks:US", "Stocks:CH", "Alt:Metal:Gold", "Alt"}
			m := map[string][]string{}
			for _, cm := range cs {
				if r.P(0.8) {
					cl := classes[r.Intn(len(classes))]
					m[cl] = append(m[cl], cm)
				}
			}
			var b strings.Builder
			var ks []string
			for k := range m {
				ks = append(ks, k)
			}
			sort.Strings(ks)
			for _, k := range ks {
				fmt.Fprintf(&b, "%q:\n", k)
				for _, cm := range m[k] {
					fmt.Fprintf(&b, "  - %q\n", cm)
				}
			}
			if len(m) == 0 {
				c.Sub = "weights"
				c.L = RandLayout(r, c.J, 4)
				return c
			}
			c.Files = map[string]string{"/w/universe.yaml": b.String()}
			if r.P(0.6) {
				mp := fmt.Sprint(r.Range(1, 3))
				if r.P(0.6) {
					mp += ":" + fmt.Sprint(r.Range(0, 2))
				}
				if r.P(0.15) {
					mp = "0:" + fmt.Sprint(r.Range(1, 2)) // nothing of the class path, the last one or two segments kept
				}
				rx := "."
				if r.P(0.5) {
					// a rule that matches only some commodities: a group node can then be
					// a collapsed leaf and a parent of other members at the same time
					rx = []string{cs[r.Intn(len(cs))], "^Stocks", "^Alt:Metal", "^Cash", "US"}[r.Intn(5)]
				}
				c.ArgSet = [][]string{{"-m", mp + "," + rx}}
			}
		}
		if c.Sub == "weights" && r.P(0.4) {
			// no universe: everything is under Other; collapse some commodities into it
			c.ArgSet = [][]string{{"-m", fmt.Sprintf("%d,%s", r.Range(1, 2), cs[r.Intn(len(cs))])}}
		}
		if r.P(0.3) {
			// an account filter on portfolio accounts
			var al []string
			for _, a := range c.J.Accounts() {
				if isAL(a) {
					al = append(al, a)
				}
			}
			if len(al) > 0 {
				c.Note = "^" + strings.Split(al[r.Intn(len(al))], ":")[0]
			}
		}
		if c.Sub != "returns-periods" && r.P(0.4) {
			// drain every holding of the valuation commodity, one booking per day
			// and nothing else on those days: afterwards that commodity is worth
			// exactly nothing, and the reports that follow must say so
			// (or, at some rate, every holding of every commodity: the portfolio is liquidated)
			all := r.P(0.4)
			type pos struct{ a, c string }
			hold := map[pos]Q{}
			for _, p := range c.J.Postings() {
				if isAL(p.Account) && (p.Com == c.Val || all) {
					hold[pos{p.Account, p.Com}] += p.Qty
				}
			}
			var accs []pos
			for a, q := range hold {
				if q != 0 {
					accs = append(accs, a)
				}
			}
			sort.Slice(accs, func(i, j int) bool {
				if accs[i].a != accs[j].a {
					return accs[i].a < accs[j].a
				}
				return accs[i].c < accs[j].c
			})
			d := max + 2
			for _, a := range accs {
				c.J.Dirs = append(c.J.Dirs, Dir{Kind: "txn", Date: d, Desc: "drain", Bookings: []Booking{{Credit: a.a, Debit: "Equity:Equity", Qty: hold[a], Com: a.c}}})
				d += Day(r.Range(1, 3))
			}
			if len(accs) > 0 {
				// remove closes that would now precede the drain, then report well past it
				var ds []Dir
				for _, x := range c.J.Dirs {
					if x.Kind == "close" || (x.Kind == "open" && x.Date > max) || x.Desc == "after reopening" || x.Desc == "emptied again" {
						continue
					}
					ds = append(ds, x)
				}
				c.J.Dirs = ds
				for i, a := range c.Args {
					if a == "--to" {
						c.Args[i+1] = (d + Day(r.Range(20, 70))).String()
					}
				}
				if !RefCheck(c.J).OK {
					return nil
				}
			}
		}
		c.L = RandLayout(r, c.J, 4)
	case "returns-flows-only", "returns-noflows":
		c.J, c.Val = genPortfolioJournal(r, c.Sub == "returns-noflows")
		_, max, _ := c.J.TxnSpan()
		iv := r.Range(IvWeekly, IvQuarterly)
		c.Args = []string{ivFlag[iv], "--to", (max + Day(r.Range(0, 30))).String()}
		if r.P(0.4) {
			c.Args = append(c.Args, "--last", strconv.Itoa(r.Range(1, 6)))
		}
		c.L = RandLayout(r, c.J, 3)
	}
	return c
}

// genPortfolioJournal builds journals whose period returns are known in
// closed form: constant prices with external flows only (0%), or an initial
// purchase followed by price changes only (end value / start value - 1).
func genPortfolioJournal(r *simrt.Rand, noflows bool) (*Journal, string) {
	j := &Journal{}
	start := anchors[r.Intn(len(anchors))]
	coms := []string{"CHF", "USD", "AAPL"}
	val := "CHF"
	for _, a := range []string{"Equity:Equity", "Assets:Bank", "Assets:Broker", "Income:Salary", "Expenses:Food"} {
		j.Dirs = append(j.Dirs, Dir{Kind: "open", Date: start, Account: a})
	}
	j.Dirs = append(j.Dirs, Dir{Kind: "price", Date: start, Com: "USD", Price: Q(r.Range(5000, 15000)), Target: "CHF"})
	j.Dirs = append(j.Dirs, Dir{Kind: "price", Date: start, Com: "AAPL", Price: Q(r.Range(50, 400)) * QScale, Target: "USD"})
	span := r.Range(40, 300)
	if noflows {
		for k := 0; k < 3; k++ {
			j.Dirs = append(j.Dirs, Dir{Kind: "txn", Date: start, Desc: "fund", Bookings: []Booking{{Credit: "Equity:Equity", Debit: "Assets:Broker", Qty: Q(r.Range(1, 500)) * QScale, Com: coms[k]}}})
		}
		if r.P(0.4) {
			// a leveraged book: a loan of about the portfolio's size, so that the net
			// value can become negative when prices move
			j.Dirs = append(j.Dirs, Dir{Kind: "open", Date: start, Account: "Liabilities:Loan"})
			j.Dirs = append(j.Dirs, Dir{Kind: "txn", Date: start, Desc: "loan", Bookings: []Booking{{Credit: "Liabilities:Loan", Debit: "Equity:Equity", Qty: Q(r.Range(1, 60000)) * QScale, Com: "CHF"}}})
		}
		for k := r.Range(3, 25); k > 0; k-- {
			d := start + Day(r.Range(5, span))
			if r.Bool() {
				j.Dirs = append(j.Dirs, Dir{Kind: "price", Date: d, Com: "USD", Price: Q(r.Range(5000, 15000)), Target: "CHF"})
			} else {
				j.Dirs = append(j.Dirs, Dir{Kind: "price", Date: d, Com: "AAPL", Price: Q(r.Range(50, 400)) * QScale, Target: "USD"})
			}
		}
		// one price per pair and day
		seen := map[string]bool{}
		var ds []Dir
		for _, d := range j.Dirs {
			if d.Kind == "price" {
				k := fmt.Sprint(d.Date, d.Com)
				if seen[k] {
					continue
				}
				seen[k] = true
			}
			ds = append(ds, d)
		}
		j.Dirs = ds
		// a last transaction far out so that the journal period covers the price days
		j.Dirs = append(j.Dirs, Dir{Kind: "txn", Date: start + Day(span+1), Desc: "zero", Bookings: []Booking{{Credit: "Income:Salary", Debit: "Expenses:Food", Qty: 1 * QScale, Com: "CHF"}}})
	} else {
		for k := r.Range(2, 20); k > 0; k-- {
			d := start + Day(r.Intn(span))
			from := []string{"Equity:Equity", "Income:Salary", "Expenses:Food"}[r.Intn(3)]
			to := []string{"Assets:Bank", "Assets:Broker"}[r.Intn(2)]
			q := Q(r.Range(1, 5000)) * QScale
			if r.P(0.3) {
				from, to = to, from
				q = Q(r.Range(1, 5)) * QScale
			}
			bs := []Booking{{Credit: from, Debit: to, Qty: q, Com: coms[r.Intn(3)]}}
			if r.P(0.35) {
				// a mixed transaction: the external flow together with a transfer inside the portfolio
				// (salary to the bank and on to the broker); the transfer is no flow, the other booking is
				a, b := "Assets:Bank", "Assets:Broker"
				if r.Bool() {
					a, b = b, a
				}
				tr := Booking{Credit: a, Debit: b, Qty: Q(r.Range(1, 5)) * QScale, Com: coms[r.Intn(3)]}
				if r.Bool() {
					bs = append(bs, tr)
				} else {
					bs = append([]Booking{tr}, bs...)
				}
			}
			j.Dirs = append(j.Dirs, Dir{Kind: "txn", Date: d, Desc: "flow", Bookings: bs})
		}
		// start with a large deposit so that withdrawals never empty the portfolio
		j.Dirs = append(j.Dirs, Dir{Kind: "txn", Date: start, Desc: "seed", Bookings: []Booking{{Credit: "Equity:Equity", Debit: "Assets:Bank", Qty: 1000000 * QScale, Com: "CHF"}}})
	}
	return j, val
}

func (c20) Eval(c *Case) (*Violation, bool) {
	files := c.L.Files(c.J)
	for k, v := range c.Files {
		files[k] = v
	}
	main := c.L.Main()
	s := c.Scheds[0]
	balArgv := append([]string{"balance", "--color=false", "--digits", "8", "-v", c.Val, "-s", ".", "--close=false", "-a"}, c.Args...)
	if c.Note != "" {
		balArgv = append(balArgv, "--account", c.Note)
	}
	balArgv = append(balArgv, main)
	ob := Run(c.specFor(s, files, balArgv))
	if !ob.OK() {
		noteVacuous(c.Sub, ob)
		return nil, true
	}
	bt, err := ParseBalText(ob.Stdout)
	if err != nil {
		return &Violation{Signature: "unreadable-table", Msg: err.Error(), Detail: ob.Stdout}, false
	}
	if len(bt.Dates) == 0 {
		return nil, true
	}
	switch c.Sub {
	case "weights", "weights-universe":
		argv := append([]string{"portfolio", "weights", "--color=false", "--digits", "6", "-a", "-v", c.Val}, c.Args...)
		for _, as := range c.ArgSet {
			argv = append(argv, as...)
		}
		if c.Sub == "weights-universe" {
			argv = append(argv, "--universe", "/w/universe.yaml")
		}
		if c.Note != "" {
			argv = append(argv, "--account", c.Note)
		}
		argv = append(argv, main)
		ow := Run(c.specFor(s, files, argv))
		if ow.Outcome != simrt.OutReturned && ow.Outcome != simrt.OutExit {
			return &Violation{Signature: "abnormal-end:" + ow.Outcome, Msg: "weights ended with " + ow.Outcome + " " + ow.PanicValue, Detail: ow.PanicStack}, false
		}
		if !ow.OK() {
			return &Violation{Signature: "weights-fails-where-balance-succeeds", Msg: "portfolio weights fails on a journal and window for which balance -v succeeds", Detail: ow.Stderr}, false
		}
		hdr, rows, err := parseTreeTable(ow.Stdout, "Commodity")
		if err != nil {
			return &Violation{Signature: "unreadable-table", Msg: err.Error(), Detail: ow.Stdout}, false
		}
		// A/L value per commodity and date from the balance
		// (summed exactly: positions of 1e10 that cancel would leave a float residue
		// that looks like a holding)
		dval := map[string][]decimal.Decimal{}
		dtotal := make([]decimal.Decimal, len(bt.Dates))
		anyCell := make([]bool, len(bt.Dates)) // some A/L cell is non-zero on that date
		for _, row := range bt.Rows {
			if row.Section != "AL" || row.Com == "" {
				continue
			}
			if dval[row.Com] == nil {
				dval[row.Com] = make([]decimal.Decimal, len(bt.Dates))
			}
			for i, v := range row.Vals {
				dval[row.Com][i] = dval[row.Com][i].Add(v)
				dtotal[i] = dtotal[i].Add(v)
				if !v.IsZero() {
					anyCell[i] = true
				}
			}
		}
		val := map[string][]float64{}
		total := make([]float64, len(bt.Dates))
		for com, vs := range dval {
			val[com] = make([]float64, len(bt.Dates))
			for i, v := range vs {
				val[com][i], _ = v.Float64()
			}
		}
		for i, v := range dtotal {
			total[i], _ = v.Float64()
		}
		colOf := map[string]int{}
		for i, d := range bt.Dates {
			colOf[d.String()] = i
		}
		wcol := map[string]int{}
		for i, h := range hdr {
			if _, ok := colOf[h]; !ok {
				return &Violation{Signature: "weights-date-not-a-report-date", Msg: "weights shows column " + h + " which is not a column date of balance for the same window", Detail: ow.Stdout}, false
			}
			wcol[h] = i
		}
		for i, d := range bt.Dates {
			if _, ok := wcol[d.String()]; !ok && math.Abs(total[i]) > 1e-6 {
				nonzero := false
				for _, v := range val {
					if math.Abs(v[i]) > 1e-9 {
						nonzero = true
					}
				}
				if nonzero {
					return &Violation{Signature: "weights-date-missing", Msg: fmt.Sprintf("balance has holdings at %s but weights has no column for it", d), Detail: ow.Stdout}, false
				}
			}
		}
		pct := func(s string) (float64, bool) {
			if s == "" {
				return 0, false
			}
			f, err := strconv.ParseFloat(strings.TrimSuffix(strings.ReplaceAll(s, ",", ""), "%"), 64)
			if err != nil {
				return 0, false
			}
			return f / 100, true
		}
		// where each commodity is shown: its universe path, shortened by the -m rule
		uni := map[string][]string{}
		if y, ok := c.Files["/w/universe.yaml"]; ok {
			cls := ""
			for _, l := range strings.Split(y, "\n") {
				l = strings.TrimSpace(l)
				switch {
				case strings.HasSuffix(l, ":"):
					cls, _ = strconv.Unquote(strings.TrimSuffix(l, ":"))
				case strings.HasPrefix(l, "- "):
					cm, _ := strconv.Unquote(strings.TrimPrefix(l, "- "))
					uni[cm] = append(strings.Split(cls, ":"), cm)
				}
			}
		}
		pathOf := func(com string) string {
			ss, ok := uni[com]
			if !ok {
				ss = []string{"Other", com}
			}
			for _, as := range c.ArgSet {
				if len(as) == 2 && as[0] == "-m" {
					parts := strings.SplitN(as[1], ",", 2)
					if len(parts) == 2 {
						if ok, _ := regexp.MatchString(parts[1], strings.Join(ss, ":")); !ok {
							continue
						}
					}
					ls := strings.Split(parts[0], ":")
					level, _ := strconv.Atoi(ls[0])
					suffix := 0
					if len(ls) == 2 {
						suffix, _ = strconv.Atoi(ls[1])
					}
					if level < len(ss)-suffix {
						ss = append(append([]string{}, ss[:level]...), ss[len(ss)-suffix:]...)
					}
					break // the first matching rule applies
				}
			}
			return strings.Join(ss, "/")
		}
		expLeaf := map[string][]float64{}
		for com, v := range val {
			k := pathOf(com)
			if expLeaf[k] == nil {
				expLeaf[k] = make([]float64, len(bt.Dates))
			}
			for i := range v {
				expLeaf[k][i] += v[i]
			}
		}
		own := map[string][]float64{}
		topSum := make([]float64, len(hdr))
		for _, r := range rows {
			key := strings.Join(r.Path, "/")
			ws := make([]float64, len(hdr))
			for i := range hdr {
				ws[i], _ = pct(r.Cells[i])
			}
			if _, dup := own[key]; dup {
				return &Violation{Signature: "duplicate-weights-row", Msg: "row " + key + " appears twice", Detail: ow.Stdout}, false
			}
			own[key] = ws
			if len(r.Path) == 1 {
				for i := range hdr {
					topSum[i] += ws[i]
				}
			}
		}
		// a date on which the balance shows no holding at all: nothing has a share
		for i, h := range hdr {
			bi := colOf[h]
			if anyCell[bi] {
				continue // positions that cancel are still positions
			}
			for _, r := range rows {
				if w, ok := pct(r.Cells[i]); ok && !(math.Abs(w) <= 1e-9) {
					return &Violation{Signature: "weight-without-holdings", Msg: fmt.Sprintf("%s at %s shows %s although the valued balance shows no holding at all on that date", strings.Join(r.Path, "/"), h, r.Cells[i]), Detail: fmt.Sprintf("argv: %v\n%s\n%s", argv, ow.Stdout, ob.Stdout)}, false
				}
			}
		}
		// every node shows the sum of the commodities shown at or below it
		for _, r := range rows {
			key := strings.Join(r.Path, "/")
			for i, h := range hdr {
				bi := colOf[h]
				if math.Abs(total[bi]) < 1e-6 {
					continue
				}
				want := 0.0
				members := 0
				for k, v := range expLeaf {
					if k == key || strings.HasPrefix(k, key+"/") {
						want += v[bi] / total[bi]
						members++
					}
				}
				// weights are ill-conditioned when large positions nearly cancel: an error of
				// 1e-8 per valued posting in the total is magnified by |weight| / |total|
				if !(math.Abs(own[key][i]-want) <= 1e-6*float64(members+1)+(math.Abs(want)+1)*1e-7/math.Abs(total[bi])) {
					sig := "wrong-weight"
					if members > 1 {
						sig = "group-not-sum-of-members"
					}
					return &Violation{Signature: sig, Msg: fmt.Sprintf("%s at %s shows %.6f%%, the valued balance gives %.6f%% (%d commodities at or below it)", key, h, own[key][i]*100, want*100, members), Detail: fmt.Sprintf("argv: %v\n%s\n%s", argv, ow.Stdout, ob.Stdout)}, false
				}
			}
		}
		for i, h := range hdr {
			if math.Abs(total[colOf[h]]) < 1e-6 {
				continue
			}
			if math.Abs(topSum[i]-1) > 1e-5 {
				return &Violation{Signature: "top-level-not-100", Msg: fmt.Sprintf("top level at %s sums to %.6f%%", h, topSum[i]*100), Detail: ow.Stdout}, false
			}
		}
		// every commodity with a non-zero holding shows up
		for com, v := range expLeaf {
			for i, h := range hdr {
				bi := colOf[h]
				if math.Abs(total[bi]) < 1e-6 || math.Abs(v[bi]/total[bi]) < 1e-6 {
					continue
				}
				found := false
				for _, r := range rows {
					if strings.Join(r.Path, "/") == com {
						found = true
					}
				}
				if !found {
					return &Violation{Signature: "commodity-missing-from-weights", Msg: fmt.Sprintf("%s is held at %s but has no row in weights", com, hdr[i]), Detail: ow.Stdout}, false
				}
			}
		}
		return nil, false
	default:
		argv := append([]string{"portfolio", "returns", "-v", c.Val}, c.Args...)
		argv = append(argv, main)
		or := Run(c.specFor(s, files, argv))
		if or.Outcome != simrt.OutReturned && or.Outcome != simrt.OutExit {
			return &Violation{Signature: "abnormal-end:" + or.Outcome, Msg: "returns ended with " + or.Outcome + " " + or.PanicValue, Detail: or.PanicStack}, false
		}
		if !or.OK() {
			return &Violation{Signature: "returns-fails-where-balance-succeeds", Msg: "portfolio returns fails where balance -v succeeds", Detail: or.Stderr}, false
		}
		type line struct {
			d Day
			p float64
		}
		var lines []line
		for _, l := range strings.Split(strings.TrimSpace(or.Stdout), "\n") {
			if l == "" {
				continue
			}
			f := strings.Fields(l)
			d, err := ParseDay(f[0])
			if err != nil || !strings.HasSuffix(l, "%") {
				return &Violation{Signature: "unreadable-returns", Msg: "cannot read line " + l, Detail: or.Stdout}, false
			}
			p, err := strconv.ParseFloat(strings.TrimSuffix(f[len(f)-1], "%"), 64)
			if err != nil {
				return &Violation{Signature: "unreadable-returns", Msg: "cannot read line " + l, Detail: or.Stdout}, false
			}
			lines = append(lines, line{d, p})
		}
		if len(lines) != len(bt.Dates) {
			var have []string
			for _, l := range lines {
				have = append(have, l.d.String())
			}
			return &Violation{Signature: "returns-period-missing", Msg: fmt.Sprintf("the partition has %d periods (%v), returns prints %d lines (%v)", len(bt.Dates), bt.Dates, len(lines), have), Detail: or.Stdout}, false
		}
		for i := range lines {
			if lines[i].d != bt.Dates[i] {
				return &Violation{Signature: "returns-period-missing", Msg: fmt.Sprintf("line %d is for %s, the partition's period ends %s", i, lines[i].d, bt.Dates[i]), Detail: or.Stdout}, false
			}
		}
		switch c.Sub {
		case "returns-flows-only":
			for _, l := range lines {
				if !(math.Abs(l.p) <= 0.06) {
					return &Violation{Signature: "return-nonzero-without-price-change", Msg: fmt.Sprintf("period ending %s: %.1f%% although prices never change and all flows are external", l.d, l.p), Detail: or.Stdout}, false
				}
			}
		case "returns-noflows":
			// end values of all periods of the full partition (without --last)
			var full []string
			for i := 0; i < len(c.Args); i++ {
				if c.Args[i] == "--last" {
					i++
					continue
				}
				full = append(full, c.Args[i])
			}
			fa := append([]string{"balance", "--color=false", "--digits", "8", "-v", c.Val, "-s", ".", "--close=false", "-a"}, full...)
			fa = append(fa, main)
			of := Run(c.specFor(s, files, fa))
			if !of.OK() {
				return nil, true
			}
			ft, err := ParseBalText(of.Stdout)
			if err != nil {
				return &Violation{Signature: "unreadable-table", Msg: err.Error(), Detail: of.Stdout}, false
			}
			tot := map[Day]float64{}
			var order []Day
			for i, d := range ft.Dates {
				order = append(order, d)
				for _, row := range ft.Rows {
					if row.Section != "AL" || row.Com == "" {
						continue
					}
					f, _ := row.Vals[i].Float64()
					tot[d] += f
				}
			}
			for _, l := range lines {
				g := -1
				for k, d := range order {
					if d == l.d {
						g = k
					}
				}
				if g < 1 || math.Abs(tot[order[g-1]]) < 1e-6 {
					continue // the very first period holds the funding
				}
				want := (tot[order[g]]/tot[order[g-1]] - 1) * 100
				// a start value close to zero (a leveraged book) magnifies the 1e-8 truncations of the valued balance
				if !(math.Abs(l.p-want) <= 0.06+(math.Abs(want)+200)*1e-6/math.Abs(tot[order[g-1]])+1e-9*math.Abs(want)) {
					return &Violation{Signature: "wrong-return", Msg: fmt.Sprintf("period ending %s: %.1f%%, end value / start value - 1 = %.3f%%", l.d, l.p, want), Detail: fmt.Sprintf("argv: %v\n%s\n%s", argv, or.Stdout, of.Stdout)}, false
				}
			}
		}
		return nil, false
	}
}

var _ = decimal.Zero
