package harness

import (
	"fmt"
	"os"
	"sort"
	"strings"

	"knutsim/simrt"
)

// C15: infer edits only the placeholder account.
type c15 struct{}

func init() { Register(c15{}) }

func (c15) ID() string { return "C15" }

type inferShape struct {
	training string
	target   string
	account  string
}

var inferAccs = []string{"Assets:Bank", "Assets:Cash", "Expenses:Food", "Expenses:Rent", "Expenses:Fun", "Income:Salary", "Liabilities:Card", "Expenses:Büro", "Expenses:Café"}

func genInferFiles(r *simrt.Rand, ties bool) (files map[string]string, args []string, placeholder string) {
	placeholder = "Expenses:TBD"
	if r.P(0.3) {
		placeholder = []string{"Expenses:Unknown", "Assets:TBD", "Equity:Q"}[r.Intn(3)]
	}
	var tr strings.Builder
	var recurring [][2]string // (description, quantity) of training bookings that targets may repeat verbatim
	kind := r.Intn(8)
	if ties {
		kind = 5
	}
	switch kind {
	case 0: // empty
	case 1:
		tr.WriteString("# only comments\n* here\n\n")
	case 2: // no transactions
		tr.WriteString("2020-01-01 open Assets:Bank\n2020-01-01 price USD 1.1 CHF\n\n")
	case 3: // one account pair only
		tr.WriteString("2020-01-02 \"Coffee\"\nAssets:Bank Expenses:Food 4 CHF\n\n")
	case 7: // one account only (transfers inside one account): a candidate for every booking but those on that account
		a := inferAccs[r.Intn(3)]
		for k := r.Range(1, 3); k > 0; k-- {
			fmt.Fprintf(&tr, "2020-01-%02d \"%s\"\n%s %s %d CHF\n\n", k, descPool[r.Intn(len(descPool)-2)], a, a, r.Range(1, 500))
		}
	case 5: // ties by construction: the same description for two accounts, same counts
		for k := 0; k < r.Range(1, 3); k++ {
			d := descPool[r.Intn(len(descPool)-2)]
			q := r.Range(1, 50)
			recurring = append(recurring, [2]string{d, fmt.Sprint(q)})
			fmt.Fprintf(&tr, "2020-02-%02d \"%s\"\nAssets:Bank Expenses:Food %d CHF\n\n", k+1, d, q)
			fmt.Fprintf(&tr, "2020-02-%02d \"%s\"\nAssets:Bank Expenses:Rent %d CHF\n\n", k+1, d, q)
			if r.P(0.5) {
				fmt.Fprintf(&tr, "2020-02-%02d \"%s\"\nAssets:Bank Expenses:Fun %d CHF\n\n", k+1, d, q)
			}
		}
	default: // rich
		for k := r.Range(2, 30); k > 0; k-- {
			i := r.Intn(len(inferAccs))
			j := r.Intn(len(inferAccs) - 1)
			if j >= i {
				j++
			}
			a, b := inferAccs[i], inferAccs[j]
			if r.P(0.1) {
				b = placeholder // bookings that still carry the placeholder are not training data
			}
			fmt.Fprintf(&tr, "2020-%02d-%02d \"%s\"\n%s %s %d CHF\n\n", r.Range(1, 12), r.Range(1, 28), descPool[r.Intn(len(descPool)-1)], a, b, r.Range(1, 500))
		}
	}
	var tg strings.Builder
	nt := r.Range(0, 8)
	tg.WriteString("# target journal\n2021-01-01 open Assets:Bank\n\n")
	for k := 0; k < nt; k++ {
		if len(recurring) > 0 && r.P(0.6) {
			// a recurring transaction: exactly the tokens of its training bookings
			rc := recurring[r.Intn(len(recurring))]
			fmt.Fprintf(&tg, "2021-%02d-%02d \"%s\"\nAssets:Bank %s %s CHF\n\n", r.Range(1, 12), r.Range(1, 28), rc[0], placeholder, rc[1])
			continue
		}
		desc := descPool[r.Intn(len(descPool)-10)]
		if r.P(0.3) {
			desc = []string{"Qwertz uiop", "Unseen words only", "ZZZ"}[r.Intn(3)]
		}
		if r.P(0.06) {
			// a remittance text of several hundred words the training data has never seen:
			// every candidate's probability is astronomically small, and still one of them is the largest
			var ws []string
			for n := r.Range(150, 900); n > 0; n-- {
				ws = append(ws, fmt.Sprintf("w%d", r.Intn(100000)))
			}
			desc = strings.Join(ws, " ")
		}
		fmt.Fprintf(&tg, "2021-%02d-%02d \"%s\"\n", r.Range(1, 12), r.Range(1, 28), desc)
		nb := 1
		if r.P(0.3) {
			nb = r.Range(2, 3)
		}
		if r.P(0.15) {
			// a booking that shares no token with the training data: unseen words,
			// unseen commodity, unseen amount, unseen counter-account
			tg.WriteString("Liabilities:Visa9   " + placeholder + "  137.21 JPY\n\n")
			continue
		}
		for b := 0; b < nb; b++ {
			other := inferAccs[r.Intn(len(inferAccs))]
			sep := []string{" ", "   ", "\t"}[r.Intn(3)]
			switch r.Intn(5) {
			case 0:
				fmt.Fprintf(&tg, "%s%s%s%s%d CHF\n", placeholder, sep, other, sep, r.Range(1, 500))
			case 1:
				fmt.Fprintf(&tg, "%s%s%s%s%d CHF\n", placeholder, sep, placeholder, sep, r.Range(1, 500))
			case 2:
				fmt.Fprintf(&tg, "%s%s%s%s%d CHF\n", other, sep, inferAccs[r.Intn(len(inferAccs))], sep, r.Range(1, 500))
			default:
				fmt.Fprintf(&tg, "%s%s%s%s%d CHF\n", other, sep, placeholder, sep, r.Range(1, 500))
			}
		}
		tg.WriteString("\n")
		if r.P(0.2) {
			tg.WriteString("# a comment between transactions\n\n")
		}
	}
	files = map[string]string{"/w/train.knut": tr.String(), "/w/target.knut": tg.String()}
	args = []string{"-t", "/w/train.knut"}
	if placeholder != "Expenses:TBD" {
		args = append(args, "-a", placeholder)
	}
	if r.P(0.3) {
		// closes of accounts that are booked on elsewhere in the training data (often in
		// another file): infer learns from bookings, whatever happens to the accounts
		txt := tr.String()
		for _, a := range inferAccs[:r.Range(1, 4)] {
			txt = "2019-12-31 close " + a + "\n" + txt
		}
		tr.Reset()
		tr.WriteString(txt)
		files["/w/train.knut"] = txt
	}
	if r.P(0.25) {
		// training data spread over an include tree
		files["/w/train.knut"] = "include \"t2.knut\"\ninclude \"sub/t3.knut\"\n"
		txt := tr.String()
		cut := strings.Index(txt[len(txt)/2:], "\n\n")
		if cut >= 0 {
			cut += len(txt)/2 + 2
			files["/w/t2.knut"] = txt[:cut]
			files["/w/sub/t3.knut"] = txt[cut:]
		} else {
			files["/w/t2.knut"] = txt
			files["/w/sub/t3.knut"] = ""
		}
	}
	return
}

func genInferCase(r *simrt.Rand, c *Case, ties bool) *Case {
	files, args, ph := genInferFiles(r, ties)
	c.Files = files
	c.Cmd = "infer"
	c.Args = append(args, "/w/target.knut")
	c.Note = ph
	c.Today = "2030-01-01"
	c.Scheds = []Sched{CanonSched()}
	for i := 0; i < 5; i++ {
		c.Scheds = append(c.Scheds, RandSched(r))
	}
	return c
}

// genNearTies: three candidates whose scores differ by 8e-10 each (a.b/c for (1001,1008,1229),
// (991,1019,1230), (986,1025,1231): 820.99918633, 820.99918699, 820.99918765), named so that the
// order of the names is the reverse of the order of the scores. The best score wins, whatever
// the order in which the candidates are visited; a comparison "within a tolerance" would not
// be transitive here.
func genNearTies(r *simrt.Rand, c *Case) *Case {
	var tr strings.Builder
	tr.WriteString("2020-01-01 open Assets:Bank\n\n")
	names := []string{"Expenses:Books", "Expenses:Food", "Expenses:Gifts"}
	if r.Bool() {
		names = []string{"Expenses:Aaa", "Expenses:Mmm", "Expenses:Zzz"}
	}
	for i, t := range [][3]int{{1001, 1008, 1229}, {991, 1019, 1230}, {986, 1025, 1231}} {
		a, b, n := t[0], t[1], t[2]
		for k := 0; k < n; k++ {
			w1, w2 := "zzz", "yyy"
			if k < a {
				w1 = "alpha"
			}
			if k >= n-b {
				w2 = "beta"
			}
			fmt.Fprintf(&tr, "2020-%02d-%02d \"%s %s\"\nAssets:Bank %s %d CHF\n\n", 1+k%12, 1+k%28, w1, w2, names[i], 1000+k%50)
		}
	}
	tg := "2021-03-04 \"alpha beta\"\nAssets:Bank Expenses:TBD 7 CHF\n\n2021-03-05 \"beta alpha\"\nAssets:Bank   Expenses:TBD   7 CHF\n\n"
	c.Sub = "infer-near-ties"
	c.Files = map[string]string{"/w/train.knut": tr.String(), "/w/target.knut": tg}
	c.Cmd = "infer"
	c.Args = []string{"-t", "/w/train.knut", "/w/target.knut"}
	c.Note = "Expenses:TBD"
	c.Today = "2030-01-01"
	c.Scheds = []Sched{CanonSched()}
	for i := 0; i < 5; i++ {
		s := RandSched(r)
		if s.MapMode == 0 {
			s.MapMode = 3
		}
		c.Scheds = append(c.Scheds, s)
	}
	return c
}

func (c15) Gen(r *simrt.Rand, idx int, tier string) *Case {
	c := &Case{Sub: "infer"}
	if idx%400 == 123 {
		return genNearTies(r, c)
	}
	if idx%3 == 2 {
		c.Sub = "infer-ties"
	}
	return genInferCase(r, c, c.Sub == "infer-ties")
}

// trainingAccounts: accounts of training bookings that do not involve the placeholder.
func trainingAccounts(files map[string]string, placeholder string) map[string]bool {
	accs := map[string]bool{}
	for name, txt := range files {
		if name == "/w/target.knut" {
			continue
		}
		for _, l := range strings.Split(txt, "\n") {
			f := strings.Fields(l)
			if len(f) == 4 && strings.Contains(f[0], ":") && strings.Contains(f[1], ":") {
				if f[0] == placeholder || f[1] == placeholder {
					continue
				}
				accs[f[0]], accs[f[1]] = true, true
			}
		}
	}
	return accs
}

func (c15) Eval(c *Case) (*Violation, bool) {
	ph := c.Note
	if ph == "" {
		ph = "Expenses:TBD"
	}
	target := "/w/target.knut"
	// the formatted target, by knut's own formatter
	of := Run(c.specFor(CanonSched(), c.Files, []string{"format", target}))
	if !of.OK() {
		noteVacuous(c.Sub, of)
		return nil, true
	}
	formatted := of.FS[target]
	train := trainingAccounts(c.Files, ph)
	argv := c.argv("")
	var first string
	for i, s := range c.Scheds {
		o := Run(c.specFor(s, c.Files, argv))
		if o.Outcome != simrt.OutReturned && o.Outcome != simrt.OutExit {
			return &Violation{Signature: "abnormal-end:" + o.Outcome, Msg: "infer ended with " + o.Outcome + " " + o.PanicValue, Detail: o.PanicStack}, false
		}
		if !o.OK() {
			return &Violation{Signature: "infer-fails", Msg: "infer fails on a parseable target and training set", Detail: o.Stderr}, false
		}
		if i == 0 {
			first = o.Stdout
			// parses?
			pf := map[string]string{"/p/out.knut": o.Stdout}
			op := Run(c.specFor(CanonSched(), pf, []string{"format", "/p/out.knut"}))
			if !op.OK() {
				return &Violation{Signature: "output-unparseable", Msg: "the output of infer does not parse", Detail: op.Stderr + "\n----\n" + o.Stdout}, false
			}
			if v := diffInfer(formatted, o.Stdout, ph, train); v != nil {
				return v, false
			}
			// --inplace writes the same bytes
			oi := Run(c.specFor(s, c.Files, append(append([]string{"infer", "--inplace"}, c.Args[:len(c.Args)-1]...), target)))
			if !oi.OK() {
				return &Violation{Signature: "inplace-fails", Msg: "infer --inplace fails where infer succeeds", Detail: oi.Stderr}, false
			}
			if oi.FS[target] != o.Stdout {
				return &Violation{Signature: "inplace-differs", Msg: "infer --inplace writes other bytes than infer prints", Detail: firstDiff(o.Stdout, oi.FS[target])}, false
			}
			if oi.Stdout != "" {
				return &Violation{Signature: "inplace-prints", Msg: "infer --inplace also writes to stdout"}, false
			}
			// the same target, already formatted (what a user who runs format first hands to infer):
			// the same rules, and the same result
			f2 := copyFiles(c.Files)
			f2[target] = formatted
			o2 := Run(c.specFor(s, f2, argv))
			if !o2.OK() {
				return &Violation{Signature: "infer-fails", Msg: "infer fails on the formatted target", Detail: o2.Stderr}, false
			}
			if v := diffInfer(formatted, o2.Stdout, ph, train); v != nil {
				v.Signature += ":formatted-target"
				return v, false
			}
			if o2.Stdout != o.Stdout && c.Files["/w/train.knut"] != "" && !strings.Contains(strings.Join(c.Args, " "), target+" ") {
				return &Violation{Signature: "formatted-target-other-result", Msg: "infer on the formatted target gives another result than on the target as written", Detail: firstDiff(o.Stdout, o2.Stdout)}, false
			}
			continue
		}
		if o.Stdout != first {
			return &Violation{Signature: "choice-differs-between-runs", Msg: fmt.Sprintf("run %d chooses differently from run 0", i), Detail: firstDiff(first, o.Stdout)}, false
		}
	}
	return nil, false
}

// diffInfer compares token-wise: only placeholder occurrences may change (and
// with them the column padding).
func diffInfer(formatted, got, ph string, train map[string]bool) *Violation {
	la, lb := strings.Split(formatted, "\n"), strings.Split(got, "\n")
	if len(la) != len(lb) {
		return &Violation{Signature: "line-count-changed", Msg: fmt.Sprintf("formatted target has %d lines, infer's output %d", len(la), len(lb)), Detail: firstDiff(formatted, got)}
	}
	for i := range la {
		fa, fb := strings.Fields(la[i]), strings.Fields(lb[i])
		isBooking := len(fa) == 4 && strings.Contains(fa[0], ":") && strings.Contains(fa[1], ":") && !dateRx.MatchString(la[i])
		if !isBooking {
			if la[i] != lb[i] {
				return &Violation{Signature: "non-booking-text-changed", Msg: fmt.Sprintf("line %d changed: %q -> %q", i+1, la[i], lb[i])}
			}
			continue
		}
		if len(fb) != 4 {
			return &Violation{Signature: "booking-shape-changed", Msg: fmt.Sprintf("line %d: %q -> %q", i+1, la[i], lb[i])}
		}
		if fa[2] != fb[2] || fa[3] != fb[3] {
			return &Violation{Signature: "amount-changed", Msg: fmt.Sprintf("line %d: %q -> %q", i+1, la[i], lb[i])}
		}
		for k := 0; k < 2; k++ {
			other := fb[1-k]
			if fa[k] != ph {
				if fb[k] != fa[k] {
					return &Violation{Signature: "non-placeholder-account-changed", Msg: fmt.Sprintf("line %d: account %s became %s", i+1, fa[k], fb[k])}
				}
				continue
			}
			// candidates: training accounts other than the other account of the booking, as written in the
			// target and as it stands in the output (a booking with the placeholder on both sides and a
			// single training account: one side gets it, for the other side nothing is left)
			otherOrig := fa[1-k]
			n := 0
			for a := range train {
				if a != otherOrig && a != other {
					n++
				}
			}
			if fb[k] == ph {
				if n > 0 {
					return &Violation{Signature: "placeholder-kept-despite-candidates", Msg: fmt.Sprintf("line %d: the placeholder was kept although the training journal offers %d candidate(s)", i+1, n)}
				}
				continue
			}
			if !train[fb[k]] {
				return &Violation{Signature: "replacement-not-in-training", Msg: fmt.Sprintf("line %d: %s does not occur in the training journal", i+1, fb[k])}
			}
			if fb[k] == otherOrig || fb[k] == other {
				return &Violation{Signature: "replacement-equals-other-account", Msg: fmt.Sprintf("line %d: the placeholder was replaced by the other account of the booking (%s)", i+1, fb[k])}
			}
		}
	}
	return nil
}

// ---- importers (C06 sub-check) -----------------------------------------------------------

type importerCmd struct {
	name string
	args []string
}

var importers = []importerCmd{
	{"cumulus", []string{"ch.cumulus", "--account", "Liabilities:Cumulus"}},
	{"interactivebrokers", []string{"us.interactivebrokers", "--account", "Assets:IB", "--dividend", "Income:Dividends", "--fee", "Expenses:Fees", "--tax", "Expenses:Tax", "--interest", "Expenses:Interest", "--trading", "Expenses:Trading"}},
	{"postfinance", []string{"ch.postfinance", "--account", "Assets:Postfinance"}},
	{"revolut", []string{"revolut", "--account", "Assets:Accounts:Revolut"}},
	{"revolut2", []string{"revolut2", "--account", "Assets:Accounts:Revolut", "--fee", "Expenses:Fees"}},
	{"supercard", []string{"ch.supercard", "--account", "Liabilities:CreditCard"}},
	{"swisscard", []string{"ch.swisscard", "--account", "Liabilities:CreditCard"}},
	{"swisscard2", []string{"ch.swisscard2", "--account", "Liabilities:CreditCard"}},
	{"swissquote", []string{"ch.swissquote", "--account", "Assets:Swissquote", "--dividend", "Income:Dividends", "--fee", "Expenses:Fees", "--interest", "Income:Interest", "--tax", "Expenses:Tax", "--trading", "Expenses:Trading"}},
	{"viac", []string{"ch.viac", "--commodity", "Viac"}},
	{"wise", []string{"com.wise", "--account", "Assets:Accounts:Wise", "--fee", "Expenses:Fees", "--trading", "Expenses:Trading"}},
}

func repoRoot() string {
	if r := os.Getenv("KNUT_REPO"); r != "" {
		return r
	}
	return "/repo"
}

func genImportCase(r *simrt.Rand, c *Case) *Case {
	im := importers[r.Intn(len(importers))]
	c.Cmd = "import"
	c.Note = im.name
	b, err := os.ReadFile(repoRoot() + "/cmd/importer/" + im.name + "/testdata/example1.input")
	if err != nil {
		return nil
	}
	text := string(b)
	if im.name == "revolut2" && r.P(0.7) {
		// two (or three) currencies on one day: the statement carries a balance per currency
		var sb strings.Builder
		sb.WriteString("Type,Product,Started Date,Completed Date,Description,Amount,Fee,Currency,State,Balance\n")
		curs := []string{"CHF", "EUR", "USD", "GBP"}
		for k := r.Range(2, 8); k > 0; k-- {
			day := r.Range(1, 3)
			fmt.Fprintf(&sb, "CARD_PAYMENT,Current,2020-07-%02d 10:00:00,2020-07-%02d 12:00:00,shop %d,-%d.50,0.00,%s,COMPLETED,%d.00\n", day, day, k, r.Range(1, 90), curs[r.Intn(len(curs))], r.Range(100, 900))
		}
		text = sb.String()
	}
	c.Files = map[string]string{"/w/statement.input": text}
	c.Args = append(append([]string{}, im.args...), "/w/statement.input")
	if im.name == "revolut2" && r.P(0.4) {
		// one statement per account ("download one CSV file per account"), bookings on the same days
		c.Files = map[string]string{}
		c.Args = append([]string{}, im.args...)
		for i, cur := range []string{"CHF", "EUR", "USD"}[:r.Range(2, 3)] {
			var sb strings.Builder
			sb.WriteString("Type,Product,Started Date,Completed Date,Description,Amount,Fee,Currency,State,Balance\n")
			for k := r.Range(1, 5); k > 0; k-- {
				day := r.Range(1, 3)
				fmt.Fprintf(&sb, "CARD_PAYMENT,Current,2020-07-%02d 10:00:00,2020-07-%02d 12:00:00,shop %d,-%d.50,0.00,%s,COMPLETED,%d.00\n", day, day, k, r.Range(1, 90), cur, r.Range(100, 900))
			}
			name := fmt.Sprintf("/w/%s.csv", strings.ToLower(cur))
			c.Files[name] = sb.String()
			c.Args = append(c.Args, name)
			_ = i
		}
	}
	c.Scheds = []Sched{CanonSched()}
	for i := 0; i < 5; i++ {
		c.Scheds = append(c.Scheds, RandSched(r))
	}
	return c
}

var _ = sort.Strings
