package harness

import (
	"fmt"
	"strings"

	"github.com/shopspring/decimal"
)

// BalTable is a parsed text balance report.
type BalTable struct {
	Dates   []Day
	HasComm bool
	Rows    []BalRow // account rows in output order
	TotalAL map[string][]decimal.Decimal
	TotalEI map[string][]decimal.Decimal
	Delta   map[string][]decimal.Decimal
	// RowOrder lists the full account paths in the order they were printed.
	RowOrder []string
}

type BalRow struct {
	Path    string // full account path rebuilt from indentation
	Section string // "AL" or "EIE"
	Depth   int
	Com     string // "" when the report has no commodity column
	Vals    []decimal.Decimal
	Blank   bool // the row had no commodity line at all (all cells empty)
}

// ParseBalText parses the output of `knut balance --color=false`.
func ParseBalText(s string) (*BalTable, error) {
	t := &BalTable{TotalAL: map[string][]decimal.Decimal{}, TotalEI: map[string][]decimal.Decimal{}, Delta: map[string][]decimal.Decimal{}}
	lines := strings.Split(s, "\n")
	section := "AL"
	var stack []string
	curName, curKind := "", ""
	headerSeen := false
	for ln, line := range lines {
		if line == "" || strings.HasPrefix(line, "+") {
			continue
		}
		if !strings.HasPrefix(line, "|") || !strings.HasSuffix(line, "|") {
			return nil, fmt.Errorf("line %d: not a table row: %q", ln+1, line)
		}
		cells := strings.Split(line[1:len(line)-1], "|")
		if !headerSeen {
			headerSeen = true
			if strings.TrimSpace(cells[0]) != "Account" {
				return nil, fmt.Errorf("line %d: header expected, got %q", ln+1, line)
			}
			i := 1
			if len(cells) > 1 && strings.TrimSpace(cells[1]) == "Comm" {
				t.HasComm = true
				i = 2
			}
			for ; i < len(cells); i++ {
				d, err := ParseDay(strings.TrimSpace(cells[i]))
				if err != nil {
					return nil, fmt.Errorf("line %d: bad date column %q", ln+1, cells[i])
				}
				t.Dates = append(t.Dates, d)
			}
			continue
		}
		nameCell := cells[0]
		name := strings.TrimSpace(nameCell)
		vi := 1
		com := ""
		if t.HasComm {
			if len(cells) < 2 {
				return nil, fmt.Errorf("line %d: short row", ln+1)
			}
			com = strings.TrimSpace(cells[1])
			vi = 2
		}
		if len(cells)-vi != len(t.Dates) {
			return nil, fmt.Errorf("line %d: %d value cells, %d dates", ln+1, len(cells)-vi, len(t.Dates))
		}
		vals := make([]decimal.Decimal, len(t.Dates))
		blank := true
		for i := range t.Dates {
			c := strings.ReplaceAll(strings.TrimSpace(cells[vi+i]), ",", "")
			if c == "" {
				continue
			}
			blank = false
			d, err := decimal.NewFromString(c)
			if err != nil {
				return nil, fmt.Errorf("line %d: bad number %q", ln+1, c)
			}
			vals[i] = d
		}
		if name == "" && com == "" && blank {
			continue // spacer row
		}
		if name != "" {
			switch name {
			case "Total (A+L)":
				curKind, curName = "totalAL", name
			case "Total (E+I+E)":
				curKind, curName = "totalEI", name
				section = "EIE" // rows after Total (A+L) belong to EIE already; harmless
			case "Delta":
				curKind, curName = "delta", name
			default:
				curKind = "row"
				lead := len(nameCell) - len(strings.TrimLeft(nameCell, " "))
				depth := (lead - 1) / 2
				if depth < 0 || (lead-1)%2 != 0 {
					return nil, fmt.Errorf("line %d: odd indentation %d in %q", ln+1, lead, nameCell)
				}
				if depth > len(stack) {
					return nil, fmt.Errorf("line %d: indentation jumps from %d to %d", ln+1, len(stack), depth)
				}
				stack = append(stack[:depth], name)
				curName = strings.Join(stack, ":")
				t.RowOrder = append(t.RowOrder, curName)
			}
		}
		switch curKind {
		case "totalAL":
			t.TotalAL[com] = vals
			section = "EIE"
		case "totalEI":
			t.TotalEI[com] = vals
		case "delta":
			t.Delta[com] = vals
		case "row":
			sec := section
			t.Rows = append(t.Rows, BalRow{Path: curName, Section: sec, Depth: len(stack) - 1, Com: com, Vals: vals, Blank: blank && com == ""})
		default:
			return nil, fmt.Errorf("line %d: continuation row before any named row", ln+1)
		}
	}
	if !headerSeen {
		return nil, fmt.Errorf("no header")
	}
	return t, nil
}

func qToDec(q Q) decimal.Decimal { return decimal.New(int64(q), -4) }
