package harness

import (
	"fmt"
	"sort"
	"strings"

	"knutsim/simrt"
)

// C06: output is a function of the input alone. One input and argv, several
// runs under different schedules, map orders and worker counts: stdout and
// exit status must be identical.
type c06 struct{}

func init() { Register(c06{}) }

func (c06) ID() string { return "C06" }

func (c06) Gen(r *simrt.Rand, idx int, tier string) *Case {
	g := DefaultGen()
	g.TieWeights = r.P(0.5)
	c := &Case{}
	subs := []string{"balance", "balance", "balance-valued", "print", "checkwrite", "transcode", "weights", "returns", "infer", "import"}
	c.Sub = subs[idx%len(subs)]
	switch c.Sub {
	case "infer":
		return genInferCase(r, c, true)
	case "import":
		return genImportCase(r, c)
	}
	valued := c.Sub == "balance-valued" || c.Sub == "transcode" || c.Sub == "weights" || c.Sub == "returns"
	if valued {
		g.Prices = "tree"
		g.MaxCom = 4
	}
	c.Gen = &g
	c.J = Gen(r, g)
	c.L = RandLayout(r, c.J, 6)
	c.Today = (anchors[r.Intn(len(anchors))] + 900).String()
	switch c.Sub {
	case "balance", "balance-valued":
		c.Cmd = "balance"
		f := GenBalFlags(r, c.J, FlagOpts{Valued: valued, AlwaysTo: true})
		if valued && len(c.J.Commodities()) < 2 {
			f.Val = ""
		}
		c.Args = append(f.Args(), "--color=false")
	case "print":
		c.Cmd = "print"
	case "checkwrite":
		c.Cmd = "check"
		c.Args = []string{"--write"}
	case "transcode":
		c.Cmd = "transcode"
		cs := c.J.Commodities()
		if len(cs) > 0 {
			c.Args = []string{"-v", cs[0]}
		}
	case "weights", "returns":
		c.Cmd = "portfolio " + c.Sub
		cs := c.J.Commodities()
		if len(cs) > 0 {
			c.Args = []string{"-v", cs[0], "--months"}
		}
		_, max, _ := c.J.TxnSpan()
		c.Args = append(c.Args, "--to", max.String())
		if c.Sub == "weights" {
			c.Args = append(c.Args, "--csv")
		}
	}
	n := 6
	if tier == "thorough" {
		n = 10
	}
	c.Scheds = []Sched{CanonSched()}
	for i := 1; i < n; i++ {
		c.Scheds = append(c.Scheds, RandSched(r))
	}
	return c
}

func (c *Case) specFor(s Sched, files map[string]string, argv []string) *Spec {
	return &Spec{Files: files, Argv: argv, Today: c.Today, Sched: s}
}

func (c *Case) argv(main string) []string {
	a := strings.Fields(c.Cmd)
	a = append(a, c.Args...)
	if main != "" {
		a = append(a, main)
	}
	return a
}

func (c06) Eval(c *Case) (*Violation, bool) {
	var files map[string]string
	main := ""
	if c.J != nil {
		files = c.L.Files(c.J)
		main = c.L.Main()
	} else {
		files = c.Files
	}
	argv := c.argv(main)
	var first *Out
	vac := false
	for i, s := range c.Scheds {
		o := Run(c.specFor(s, files, argv))
		if i == 0 {
			first = o
			if !o.OK() {
				vac = true
				noteVacuous(c.Sub, o)
			}
			continue
		}
		if o.Outcome != first.Outcome || o.ExitCode != first.ExitCode {
			return &Violation{Signature: c.Sub + ":exit-status", Msg: fmt.Sprintf("run 0 ended %s/%d, run %d ended %s/%d", first.Outcome, first.ExitCode, i, o.Outcome, o.ExitCode),
				Detail: "stderr0: " + first.Stderr + "\nstderr" + fmt.Sprint(i) + ": " + o.Stderr + o.PanicValue}, vac
		}
		if o.Stdout != first.Stdout {
			return &Violation{Signature: c.Sub + ":" + diffClass(c.Sub, first.Stdout, o.Stdout), Msg: fmt.Sprintf("stdout of run %d differs from run 0 on the same input", i), Detail: firstDiff(first.Stdout, o.Stdout)}, vac
		}
	}
	return nil, vac
}

// diffClass names how two outputs differ: only in the order of lines/blocks,
// or in content.
func diffClass(sub, a, b string) string {
	la, lb := strings.Split(a, "\n"), strings.Split(b, "\n")
	sa, sb := append([]string{}, la...), append([]string{}, lb...)
	sort.Strings(sa)
	sort.Strings(sb)
	if strings.Join(sa, "\n") == strings.Join(sb, "\n") {
		// same lines; same blocks?
		ba, bb := strings.Split(a, "\n\n"), strings.Split(b, "\n\n")
		sort.Strings(ba)
		sort.Strings(bb)
		if strings.Join(ba, "\n\n") == strings.Join(bb, "\n\n") {
			return "block-order"
		}
		return "line-order"
	}
	return "content"
}

func firstDiff(a, b string) string {
	la, lb := strings.Split(a, "\n"), strings.Split(b, "\n")
	for i := 0; i < len(la) || i < len(lb); i++ {
		var x, y string
		if i < len(la) {
			x = la[i]
		}
		if i < len(lb) {
			y = lb[i]
		}
		if x != y {
			lo := i - 3
			if lo < 0 {
				lo = 0
			}
			hiA, hiB := i+4, i+4
			if hiA > len(la) {
				hiA = len(la)
			}
			if hiB > len(lb) {
				hiB = len(lb)
			}
			return fmt.Sprintf("first difference at line %d:\n--- run 0\n%s\n--- other run\n%s", i+1, strings.Join(la[lo:hiA], "\n"), strings.Join(lb[lo:hiB], "\n"))
		}
	}
	return ""
}

// noteVacuous counts why a case could not exercise its oracle (evidence/debugging).
func noteVacuous(sub string, o *Out) {
	if Shrinking {
		return
	}
	line := o.Stderr
	if i := strings.IndexByte(line, '\n'); i >= 0 {
		line = line[:i]
	}
	if len(line) > 60 {
		line = line[:60]
	}
	if o.Outcome == simrt.OutPanic {
		line = "panic: " + o.PanicValue
	}
	Extra["vacuous:"+sub+":"+o.Outcome+":"+line]++
}
