package harness

import (
	"fmt"
	"sort"
	"strings"

	"knutsim/simrt"
)

// C06: output is a function of the input alone. One input and argv, several
// runs under different schedules, map orders and worker counts: stdout and
// exit status must be identical.
type c06 struct{}

func init() { Register(c06{}) }

func (c06) ID() string { return "C06" }

func (c06) Gen(r *simrt.Rand, idx int, tier string) *Case {
	g := DefaultGen()
	g.TieWeights = r.P(0.5)
	c := &Case{}
	subs := []string{"balance", "balance-ties", "balance-valued", "print", "checkwrite", "transcode", "weights", "returns", "infer", "import", "price-conflict", "price-paths", "register", "weights-ties"}
	c.Sub = subs[idx%len(subs)]
	switch c.Sub {
	case "balance-ties":
		return genTieCase(r, c, tier)
	case "infer":
		return genInferCase(r, c, true)
	case "import":
		return genImportCase(r, c)
	}
	if c.Sub == "weights-ties" {
		// groups of a universe whose weights are mathematically equal but are
		// reached by different float sums (members in another order, several dates)
		start := anchors[r.Intn(len(anchors))]
		var b, u strings.Builder
		b.WriteString(fmt.Sprintf("%s open Assets:Depot\n%s open Equity:Equity\n\n", start, start))
		n := r.Range(3, 5)
		zeroTotal := r.P(0.3)
		var parts []Q
		for i := 0; i < n; i++ {
			q := Q(r.Range(1, 9999)) * 100
			if r.P(0.5) {
				q = Q(r.Range(1, 99)) * 10100
			}
			if zeroTotal {
				q = Q(r.Range(1, 999)) * QScale // whole numbers: their float sum is exact
			}
			parts = append(parts, q)
		}
		groups := r.Range(2, 3)
		k := 0
		for g := 0; g < groups; g++ {
			fmt.Fprintf(&u, "\"Group%c\":\n", 'A'+g)
			for _, pi := range r.Perm(n) {
				k++
				cm := fmt.Sprintf("K%d", k)
				fmt.Fprintf(&u, "  - \"%s\"\n", cm)
				fmt.Fprintf(&b, "%s price %s 1 CHF\n", start, cm)
				fmt.Fprintf(&b, "%s \"buy\"\nEquity:Equity Assets:Depot %s %s\n\n", start+Day(r.Range(0, 3)), parts[pi].String(), cm)
			}
		}
		if r.P(0.3) {
			// one commodity classified twice: whatever knut does about it, it must
			// do the same on every run
			fmt.Fprintf(&u, "\"GroupA:Sub\":\n  - \"K1\"\n")
		}
		if zeroTotal {
			// a long/short book whose total is exactly zero for a while: the weights
			// are then +Inf, -Inf and (for a group that nets to zero) NaN; whatever
			// knut prints for them, it must print the same on every run
			var total Q
			for _, q := range parts {
				total += q * Q(groups)
			}
			mq := Q(r.Range(1, 999)) * QScale
			fmt.Fprintf(&b, "%s open Liabilities:Short\n%s price KM 1 CHF\n%s price SH 1 CHF\n", start, start, start)
			fmt.Fprintf(&b, "%s \"long\"\nEquity:Equity Assets:Depot %s KM\n\n", start+1, mq.String())
			fmt.Fprintf(&b, "%s \"short\"\nLiabilities:Short Equity:Equity %s SH\n\n", start+2, mq.String())
			fmt.Fprintf(&b, "%s \"margin\"\nLiabilities:Short Equity:Equity %s CHF\n\n", start+3, total.String())
			name := []string{"Mixed", "GroupAA", "Hedge", "Balanced", "Zed"}[r.Intn(5)]
			fmt.Fprintf(&u, "%q:\n  - \"KM\"\n  - \"SH\"\n", name)
			if r.P(0.6) {
				// the short cash leg in a class of its own, sorted before or after the others by name
				fmt.Fprintf(&u, "%q:\n  - \"CHF\"\n", []string{"AACash", "Cash", "Margin"}[r.Intn(3)])
			}
		}
		end := start + Day(r.Range(40, 200))
		fmt.Fprintf(&b, "%s \"later\"\nEquity:Equity Assets:Depot 1 CHF\n\n", end)
		c.Files = map[string]string{"/w/t.knut": b.String(), "/w/u.yaml": u.String()}
		c.Cmd = "portfolio weights"
		c.Today = "2030-01-01"
		c.Args = []string{"--color=false", "-v", "CHF", "--universe", "/w/u.yaml", "--to", end.String(), []string{"--months", "--weeks", "--quarters"}[r.Intn(3)], "/w/t.knut"}
		if r.P(0.4) {
			c.Args = append([]string{"-m", "1,."}, c.Args...)
		}
		if r.P(0.3) {
			c.Args = append([]string{"--digits", "9"}, c.Args...)
		}
		c.Scheds = []Sched{CanonSched()}
		for i := 1; i < 8; i++ {
			s := RandSched(r)
			if s.MapMode == 0 {
				s.MapMode = 3
			}
			c.Scheds = append(c.Scheds, s)
		}
		return c
	}
	if c.Sub == "price-paths" {
		// a price graph with alternative derivations (C12's generator): whichever
		// derivation knut picks, it must pick the same one on every run
		pc := (c12{}).Gen(r, idx, tier)
		if pc.Sub == "zero-price" {
			return nil
		}
		qday := D(2020, 1, 1) + 6
		var b strings.Builder
		b.WriteString("2019-12-01 open Assets:P\n2019-12-01 open Equity:Equity\n\n")
		for _, d := range pc.J.Dirs {
			b.WriteString(d.Render())
		}
		b.WriteString("\n")
		for _, cm := range pc.Args {
			fmt.Fprintf(&b, "%s \"buy %s\"\nEquity:Equity Assets:P %d %s\n\n", qday, cm, r.Range(1, 50), cm)
		}
		c.Files = map[string]string{"/w/p.knut": b.String()}
		c.Cmd = "balance"
		c.Today = "2030-01-01"
		c.Args = []string{"--color=false", "--digits", "8", "-a", "-v", pc.Val, "-s", ".", "--to", qday.String(), "/w/p.knut"}
		c.Scheds = []Sched{CanonSched()}
		for i := 1; i < 8; i++ {
			s := RandSched(r)
			if s.MapMode == 0 {
				s.MapMode = 3
			}
			c.Scheds = append(c.Scheds, s)
		}
		return c
	}
	if c.Sub == "price-conflict" {
		// two declarations for one pair on one day, in different files: whatever
		// knut makes of them, it must make the same of them on every run
		g.Prices = "tree"
		g.MaxCom = 3
		c.Gen = &g
		for try := 0; try < 20; try++ {
			c.J = Gen(r, g)
			if len(c.J.Commodities()) >= 2 {
				break
			}
		}
		var prices []int
		for i, d := range c.J.Dirs {
			if d.Kind == "price" {
				prices = append(prices, i)
			}
		}
		if len(prices) == 0 {
			return nil
		}
		twinA, twinB := -1, -1
		for k := r.Range(1, 3); k > 0; k-- {
			twinA = prices[r.Intn(len(prices))]
			d := c.J.Dirs[twinA]
			d.Price += Q(r.Range(1, 50000))
			c.J.Dirs = append(c.J.Dirs, d)
			twinB = len(c.J.Dirs) - 1
		}
		// every directive in its own file
		c.L = RandLayout(r, c.J, 8)
		for len(c.L.Names) < 4 {
			c.L = RandLayout(r, c.J, 8)
		}
		if r.P(0.35) {
			// twin sub-ledgers: a/index.knut and b/index.knut each include "prices.knut", and the two
			// conflicting quotes are the first line of a/prices.knut and of b/prices.knut: same
			// spelling of the include, same name, same offset, different files
			l := CanonLayout(c.J)
			l.Parent = []int{-1, 0, 0, 1, 2}
			l.Names = []string{"main.knut", "a/index.knut", "b/index.knut", "a/prices.knut", "b/prices.knut"}
			for pos, di := range l.Order {
				switch di {
				case twinA:
					l.File[pos] = 3
				case twinB:
					l.File[pos] = 4
				default:
					l.File[pos] = r.Intn(3)
				}
			}
			l.Root = c.L.Root
			c.L = l
		}
		c.Today = "2030-01-01"
		c.Cmd = []string{"balance", "transcode", "print"}[r.Intn(3)]
		cs := c.J.Commodities()
		switch c.Cmd {
		case "balance":
			c.Args = []string{"--color=false", "-a", "-v", cs[r.Intn(len(cs))], "--to", "2029-01-01", "--digits", "4"}
		case "transcode":
			c.Args = []string{"-v", cs[0]}
		}
		c.Scheds = []Sched{CanonSched()}
		for i := 1; i < 8; i++ {
			c.Scheds = append(c.Scheds, RandSched(r))
		}
		return c
	}
	valued := c.Sub == "balance-valued" || c.Sub == "transcode" || c.Sub == "weights" || c.Sub == "returns"
	if valued {
		g.Prices = "tree"
		g.MaxCom = 4
	}
	c.Gen = &g
	c.J = Gen(r, g)
	c.L = RandLayout(r, c.J, 6)
	c.Today = (anchors[r.Intn(len(anchors))] + 900).String()
	switch c.Sub {
	case "balance", "balance-valued":
		c.Cmd = "balance"
		f := GenBalFlags(r, c.J, FlagOpts{Valued: valued, AlwaysTo: true})
		if valued && len(c.J.Commodities()) < 2 {
			f.Val = ""
		}
		c.Args = append(f.Args(), "--color=false")
	case "print":
		c.Cmd = "print"
	case "checkwrite":
		c.Cmd = "check"
		c.Args = []string{"--write"}
	case "transcode":
		c.Cmd = "transcode"
		cs := c.J.Commodities()
		if len(cs) > 0 {
			c.Args = []string{"-v", cs[0]}
		}
	case "register":
		c.Cmd = "register"
		_, max, _ := c.J.TxnSpan()
		c.Args = []string{"--color=false", "--to", max.String()}
		if r.P(0.5) {
			c.Args = append(c.Args, []string{"--months", "--weeks", "--years"}[r.Intn(3)])
		}
		for _, fl := range []string{"-d", "-a", "-c", "-s"} {
			if r.P(0.5) {
				c.Args = append(c.Args, fl)
			}
		}
	case "weights", "returns":
		c.Cmd = "portfolio " + c.Sub
		cs := c.J.Commodities()
		if len(cs) > 0 {
			c.Args = []string{"-v", cs[0], "--months"}
		}
		_, max, _ := c.J.TxnSpan()
		c.Args = append(c.Args, "--to", max.String())
		if c.Sub == "weights" {
			c.Args = append(c.Args, "--csv")
		}
	}
	n := 6
	if tier == "thorough" {
		n = 10
	}
	c.Scheds = []Sched{CanonSched()}
	for i := 1; i < n; i++ {
		c.Scheds = append(c.Scheds, RandSched(r))
	}
	return c
}

func (c *Case) specFor(s Sched, files map[string]string, argv []string) *Spec {
	return &Spec{Files: files, Argv: argv, Today: c.Today, Sched: s}
}

func (c *Case) argv(main string) []string {
	a := strings.Fields(c.Cmd)
	for _, x := range c.Args {
		if x == "@MAIN" {
			x = main
		}
		a = append(a, x)
	}
	if main != "" {
		a = append(a, main)
	}
	return a
}

func (c06) Eval(c *Case) (*Violation, bool) {
	var files map[string]string
	main := ""
	if c.J != nil {
		files = c.L.Files(c.J)
		main = c.L.Main()
	} else {
		files = c.Files
	}
	argv := c.argv(main)
	var first *Out
	vac := false
	for i, s := range c.Scheds {
		o := Run(c.specFor(s, files, argv))
		if i == 0 {
			first = o
			if !o.OK() {
				vac = true
				noteVacuous(c.Sub, o)
			}
			continue
		}
		if o.Outcome != first.Outcome || o.ExitCode != first.ExitCode {
			return &Violation{Signature: c.Sub + ":exit-status", Msg: fmt.Sprintf("run 0 ended %s/%d, run %d ended %s/%d", first.Outcome, first.ExitCode, i, o.Outcome, o.ExitCode),
				Detail: "stderr0: " + first.Stderr + "\nstderr" + fmt.Sprint(i) + ": " + o.Stderr + o.PanicValue}, vac
		}
		if o.Stdout != first.Stdout {
			return &Violation{Signature: c.Sub + ":" + diffClass(c.Sub, first.Stdout, o.Stdout), Msg: fmt.Sprintf("stdout of run %d differs from run 0 on the same input", i), Detail: firstDiff(first.Stdout, o.Stdout)}, vac
		}
	}
	return nil, vac
}

// diffClass names how two outputs differ: only in the order of lines/blocks,
// or in content.
func diffClass(sub, a, b string) string {
	la, lb := strings.Split(a, "\n"), strings.Split(b, "\n")
	sa, sb := append([]string{}, la...), append([]string{}, lb...)
	sort.Strings(sa)
	sort.Strings(sb)
	if strings.Join(sa, "\n") == strings.Join(sb, "\n") {
		// same lines; same blocks?
		ba, bb := strings.Split(a, "\n\n"), strings.Split(b, "\n\n")
		sort.Strings(ba)
		sort.Strings(bb)
		if strings.Join(ba, "\n\n") == strings.Join(bb, "\n\n") {
			return "block-order"
		}
		return "line-order"
	}
	return "content"
}

func firstDiff(a, b string) string {
	la, lb := strings.Split(a, "\n"), strings.Split(b, "\n")
	for i := 0; i < len(la) || i < len(lb); i++ {
		var x, y string
		if i < len(la) {
			x = la[i]
		}
		if i < len(lb) {
			y = lb[i]
		}
		if x != y {
			lo := i - 3
			if lo < 0 {
				lo = 0
			}
			hiA, hiB := i+4, i+4
			if hiA > len(la) {
				hiA = len(la)
			}
			if hiB > len(lb) {
				hiB = len(lb)
			}
			return fmt.Sprintf("first difference at line %d:\n--- run 0\n%s\n--- other run\n%s", i+1, strings.Join(la[lo:hiA], "\n"), strings.Join(lb[lo:hiB], "\n"))
		}
	}
	return ""
}

// noteVacuous counts why a case could not exercise its oracle (evidence/debugging).
func noteVacuous(sub string, o *Out) {
	if Shrinking {
		return
	}
	line := o.Stderr
	if i := strings.IndexByte(line, '\n'); i >= 0 {
		line = line[:i]
	}
	if len(line) > 60 {
		line = line[:60]
	}
	if o.Outcome == simrt.OutPanic {
		line = "panic: " + o.PanicValue
	}
	Extra["vacuous:"+sub+":"+o.Outcome+":"+line]++
}

// genTieCase builds journals in which sibling accounts have exactly equal
// totals that are reached by different sums of fractional amounts (so that any
// inexact or order-dependent accumulation of sort weights shows), valued in the
// booking commodity itself, sorted by weight.
func genTieCase(r *simrt.Rand, c *Case, tier string) *Case {
	j := &Journal{}
	start := anchors[r.Intn(len(anchors))]
	parent := []string{"Expenses:Home", "Assets:Bank", "Income:Jobs", "Liabilities:Cards"}[r.Intn(4)]
	nsib := r.Range(2, 4)
	accs := []string{"Equity:Equity"}
	twoLevel := r.P(0.5)
	for i := 0; i < nsib; i++ {
		a := fmt.Sprintf("%s:%s", parent, []string{"Alpha", "Beta", "Gamma", "Delta"}[i])
		if twoLevel {
			// tied parents, each the sum of several children
			a += ":" + []string{"One", "Two", "Three"}[r.Intn(3)]
		}
		accs = append(accs, a)
	}
	for _, a := range accs {
		j.Dirs = append(j.Dirs, Dir{Kind: "open", Date: start, Account: a})
	}
	// fractional addends (two decimals), e.g. 10.10 20.20 30.30
	n := r.Range(3, 6)
	var parts []Q
	var total Q
	for i := 0; i < n; i++ {
		q := Q(r.Range(1, 9999)) * 100
		if r.P(0.5) {
			q = Q(r.Range(1, 99)) * 1010 * 10 // x.10-like values
		}
		parts = append(parts, q)
		total += q
	}
	com := comPool[r.Intn(3)]
	day := 0
	book := func(acc string, q Q) {
		day += r.Range(1, 45)
		j.Dirs = append(j.Dirs, Dir{Kind: "txn", Date: start + Day(day), Desc: "t", QStyle: r.Intn(3), Bookings: []Booking{{Credit: "Equity:Equity", Debit: acc, Qty: q, Com: com}}})
	}
	if twoLevel {
		// re-open: children of each parent
		base := append([]string{}, accs[1:]...)
		for _, a := range base {
			p := a[:strings.LastIndexByte(a, ':')]
			for _, ch := range []string{"One", "Two", "Three"} {
				if p+":"+ch != a {
					j.Dirs = append(j.Dirs, Dir{Kind: "open", Date: start, Account: p + ":" + ch})
				}
			}
		}
	}
	childOf := func(a string, k int) string {
		if !twoLevel {
			return a
		}
		return a[:strings.LastIndexByte(a, ':')] + ":" + []string{"One", "Two", "Three"}[k%3]
	}
	_ = childOf
	for i := 1; i <= nsib; i++ {
		if twoLevel {
			// each parent gets the same addends, distributed over its children in another order
			for x, k := range r.Perm(n) {
				book(childOf(accs[i], x+i), parts[k])
			}
			continue
		}
		switch (i + r.Intn(3)) % 3 {
		case 0: // the same addends in another order
			for _, k := range r.Perm(n) {
				book(accs[i], parts[k])
			}
		case 1: // one booking of the total
			book(accs[i], total)
		default: // another partition of the same total
			rest := total
			for k := 0; k < n-1; k++ {
				q := Q(r.Range(1, int(rest/2/100)+1)) * 100
				book(accs[i], q)
				rest -= q
			}
			book(accs[i], rest)
		}
	}
	c.J = j
	c.L = RandLayout(r, j, 4)
	c.Cmd = "balance"
	c.Today = (start + 900).String()
	c.Args = []string{"--color=false", "--digits", "2", "-v", com, "--to", (start + Day(day+1)).String()}
	if r.P(0.8) {
		c.Args = append(c.Args, []string{"--months", "--weeks", "--quarters"}[r.Intn(3)])
	}
	nn := 8
	if tier == "thorough" {
		nn = 12
	}
	c.Scheds = []Sched{CanonSched()}
	for i := 1; i < nn; i++ {
		s := RandSched(r)
		if s.MapMode == 0 {
			s.MapMode = 3
		}
		c.Scheds = append(c.Scheds, s)
	}
	return c
}
