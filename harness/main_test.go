package harness

import (
	"os"
	"testing"

	"knutsim/simrt"
)

func TestMain(m *testing.M) {
	if os.Getenv("SIM_VERIFY_GOID") == "1" {
		simrt.VerifyGoid = true
	}
	os.Exit(m.Run())
}
