package harness

import (
	"fmt"
	"regexp"
	"sort"
	"strings"

	"github.com/shopspring/decimal"
)

// Window is the reporting window knut derives from the flags and the journal.
type Window struct {
	Start, End Day
	Empty      bool
}

// window computes [max(from, first transaction), min(to or today, last transaction or price)].
func window(j *Journal, f *BalFlags, today Day) (Window, bool) {
	jmin, jmax, ok := j.TxnSpan()
	if !ok {
		return Window{}, false
	}
	w := Window{Start: jmin, End: jmax}
	if f.From != nil && *f.From > w.Start {
		w.Start = *f.From
	}
	to := today
	if f.To != nil {
		to = *f.To
	}
	if to < w.End {
		w.End = to
	}
	w.Empty = w.End < w.Start
	return w, true
}

// mapAccount applies --remap and -m rules to an account name; "" means hidden.
func mapAccount(a string, f *BalFlags, rx map[string]*regexp.Regexp) string {
	for _, r := range f.Remap {
		if rx[r].MatchString(a) {
			segs := strings.SplitN(a, ":", 2)
			swap := map[string]string{"Assets": "Liabilities", "Liabilities": "Assets", "Income": "Expenses", "Expenses": "Income", "Equity": "Equity"}
			segs[0] = swap[segs[0]]
			a = strings.Join(segs, ":")
			break
		}
	}
	for _, m := range f.Mappings {
		if m.Regex != "" && !rx[m.Regex].MatchString(a) {
			continue
		}
		if m.Level == 0 {
			return ""
		}
		segs := strings.Split(a, ":")
		suffix := 0
		if m.HasSuffix {
			suffix = m.Suffix
		}
		if suffix >= len(segs) || m.Level > len(segs)-suffix {
			return a
		}
		out := append(append([]string{}, segs[:m.Level]...), segs[len(segs)-suffix:]...)
		return strings.Join(out, ":")
	}
	return a
}

func compileAll(f *BalFlags) (map[string]*regexp.Regexp, error) {
	rx := map[string]*regexp.Regexp{}
	add := func(s string) error {
		if s == "" {
			return nil
		}
		r, err := regexp.Compile(s)
		if err != nil {
			return err
		}
		rx[s] = r
		return nil
	}
	for _, s := range f.Accounts {
		if err := add(s); err != nil {
			return nil, err
		}
	}
	for _, s := range f.Commodities {
		if err := add(s); err != nil {
			return nil, err
		}
	}
	for _, s := range f.Remap {
		if err := add(s); err != nil {
			return nil, err
		}
	}
	for _, m := range f.Mappings {
		if err := add(m.Regex); err != nil {
			return nil, err
		}
	}
	return rx, nil
}

func matchAny(rx map[string]*regexp.Regexp, pats []string, s string) bool {
	if len(pats) == 0 {
		return true
	}
	for _, p := range pats {
		if rx[p].MatchString(s) {
			return true
		}
	}
	return false
}

// RefLedger is the independent computation of the unvalued balance table.
type RefLedger struct {
	// Cum[path][com][i]: cumulative quantity shown in column i (before --diff,
	// before the sign convention of the section).
	Cum map[string]map[string][]Q
	// Allowed row paths (accounts with postings passing the filters in the
	// window, mapped, plus ancestors, plus Equity:Equity under closing).
	Allowed map[string]bool
	// Inexact[path][com][i]: the cell depends on how an uneven accrual is split.
	Inexact map[string]map[string][]bool
	Hidden  map[string][]Q // per commodity: cumulative amount hidden by level-0 mappings or filters (Delta)
	Starts  []Day
}

// BuildRefLedger computes the table for the given column dates (taken from
// knut's own header so that this check does not also decide C11).
func BuildRefLedger(j *Journal, f *BalFlags, today Day, cols []Day) (*RefLedger, error) {
	rx, err := compileAll(f)
	if err != nil {
		return nil, err
	}
	w, ok := window(j, f, today)
	if !ok {
		return nil, fmt.Errorf("journal without transactions")
	}
	n := len(cols)
	rl := &RefLedger{Cum: map[string]map[string][]Q{}, Allowed: map[string]bool{}, Inexact: map[string]map[string][]bool{}, Hidden: map[string][]Q{}}
	if n == 0 {
		return rl, nil
	}
	starts := make([]Day, n)
	for i := range cols {
		if i > 0 {
			starts[i] = cols[i-1] + 1
		} else {
			starts[0] = w.Start
			if f.Interval != IvOnce {
				if ps := periodStart(cols[0], f.Interval); ps > starts[0] {
					starts[0] = ps
				}
			}
		}
	}
	rl.Starts = starts
	colOf := func(d Day) int { // first column whose date is >= d
		return sort.Search(n, func(i int) bool { return cols[i] >= d })
	}
	add := func(acc, com string, from int, q Q, inexact bool) {
		// adds q to the cumulative cells from column `from` on
		path := mapAccount(acc, f, rx)
		if path == "" {
			h := rl.Hidden[com]
			if h == nil {
				h = make([]Q, n)
				rl.Hidden[com] = h
			}
			for i := from; i < n; i++ {
				h[i] += q
			}
			return
		}
		for p := path; ; {
			rl.Allowed[p] = true
			k := strings.LastIndexByte(p, ':')
			if k < 0 {
				break
			}
			p = p[:k]
		}
		m := rl.Cum[path]
		if m == nil {
			m = map[string][]Q{}
			rl.Cum[path] = m
			rl.Inexact[path] = map[string][]bool{}
		}
		if m[com] == nil {
			m[com] = make([]Q, n)
			rl.Inexact[path][com] = make([]bool, n)
		}
		for i := from; i < n; i++ {
			m[com][i] += q
		}
		if inexact {
			for i := 0; i < n; i++ {
				rl.Inexact[path][com][i] = true
			}
		}
	}
	closing := f.closing()
	closable := func(a string) bool { return !isAL(a) && a != "Equity:Equity" }
	for _, p := range j.Postings() {
		if p.Date < w.Start || p.Date > w.End {
			continue
		}
		if !matchAny(rx, f.Commodities, p.Com) {
			continue
		}
		ci := colOf(p.Date)
		accOK := matchAny(rx, f.Accounts, p.Account)
		if closing && closable(p.Account) {
			// the row restarts at each period start: the posting shows in the
			// column of its own period only; from the next period start on the
			// amount sits on Equity:Equity.
			if ci < n {
				if accOK {
					add(p.Account, p.Com, ci, p.Qty, p.Inexact)
					if ci+1 < n {
						add(p.Account, p.Com, ci+1, -p.Qty, p.Inexact)
					}
				}
				// first period start strictly after the posting date
				k := sort.Search(n, func(i int) bool { return starts[i] > p.Date })
				if k < n && matchAny(rx, f.Accounts, "Equity:Equity") {
					add("Equity:Equity", p.Com, k, p.Qty, p.Inexact)
				}
				// a posting dated before the first shown period start is closed at
				// that start: it never shows on its own row
				if p.Date < starts[0] && accOK {
					add(p.Account, p.Com, 0, -p.Qty, p.Inexact)
					if 1 < n {
						add(p.Account, p.Com, 1, p.Qty, p.Inexact)
					}
				}
			}
			continue
		}
		if !accOK {
			continue
		}
		if ci < n {
			add(p.Account, p.Com, ci, p.Qty, p.Inexact)
		}
	}
	if closing && matchAny(rx, f.Accounts, "Equity:Equity") {
		if path := mapAccount("Equity:Equity", f, rx); path != "" {
			for p := path; ; {
				rl.Allowed[p] = true
				k := strings.LastIndexByte(p, ':')
				if k < 0 {
					break
				}
				p = p[:k]
			}
		}
	}
	return rl, nil
}

// sectionOf tells in which half of the report a (mapped) path is printed.
func sectionOf(path string) string {
	if isAL(path) {
		return "AL"
	}
	return "EIE"
}

// CompareLedger checks a parsed unvalued report against the reference.
func CompareLedger(t *BalTable, rl *RefLedger, f *BalFlags, strictEquity bool) *Violation {
	n := len(t.Dates)
	shown := map[string]map[string][]decimal.Decimal{}
	for _, r := range t.Rows {
		if sectionOf(r.Path) != r.Section {
			return &Violation{Signature: "row-in-wrong-section", Msg: fmt.Sprintf("row %s is printed in section %s", r.Path, r.Section)}
		}
		if !rl.Allowed[r.Path] {
			return &Violation{Signature: "unexpected-row", Msg: fmt.Sprintf("row %s appears although no booking passing the filters inside the window maps to it (or below it)", r.Path)}
		}
		if r.Com == "" {
			continue
		}
		if shown[r.Path] == nil {
			shown[r.Path] = map[string][]decimal.Decimal{}
		}
		if _, dup := shown[r.Path][r.Com]; dup {
			return &Violation{Signature: "duplicate-row", Msg: fmt.Sprintf("row %s / %s appears twice", r.Path, r.Com)}
		}
		shown[r.Path][r.Com] = r.Vals
	}
	expect := func(path, com string, i int) decimal.Decimal {
		c := rl.Cum[path][com]
		var q Q
		if c != nil {
			q = c[i]
			if f.Diff && i > 0 {
				q -= c[i-1]
			}
		}
		d := qToDec(q)
		if sectionOf(path) == "EIE" {
			d = d.Neg()
		}
		return d
	}
	paths := map[string]bool{}
	for p := range rl.Cum {
		paths[p] = true
	}
	for p := range shown {
		paths[p] = true
	}
	var ps []string
	for p := range paths {
		ps = append(ps, p)
	}
	sort.Strings(ps)
	for _, p := range ps {
		if !strictEquity && f.closing() && strings.HasPrefix(p, "Equity") && p != "Equity:Equity" {
			// the property does not say how other equity accounts behave under closing
			continue
		}
		coms := map[string]bool{}
		for c := range rl.Cum[p] {
			coms[c] = true
		}
		for c := range shown[p] {
			coms[c] = true
		}
		for c := range coms {
			for i := 0; i < n; i++ {
				if ix := rl.Inexact[p][c]; ix != nil && ix[i] {
					continue
				}
				want := expect(p, c, i)
				got := decimal.Zero
				if v := shown[p][c]; v != nil {
					got = v[i]
				}
				if !want.Equal(got) {
					return &Violation{Signature: "wrong-cell", Msg: fmt.Sprintf("cell %s / %s / %s shows %s, the ledger says %s", p, c, t.Dates[i], got, want)}
				}
			}
		}
	}
	return nil
}
