package harness

import (
	"time"
	"fmt"
	"sort"
	"strings"

	"knutsim/simrt"

	"github.com/sboehler/knut/lib/model/commodity"
	"github.com/sboehler/knut/lib/model/price"
	"github.com/shopspring/decimal"
)

// C12: derived prices are consistent with declared prices, for every map
// iteration order of the price graph. Driven at the library API of the
// instrumented price package (under the simulator's map-order seam) and
// through `balance -v`.
type c12 struct{}

func init() { Register(c12{}) }

var valuateAmounts = []decimal.Decimal{decimal.NewFromInt(7), decimal.Zero, decimal.New(0, -2), decimal.New(-35, -1), decimal.New(1, -8), decimal.New(-123456789, -9)}

func (c12) ID() string { return "C12" }

func (c12) Gen(r *simrt.Rand, idx int, tier string) *Case {
	c := &Case{Sub: "graph", Today: "2030-01-01"}
	ncom := r.Range(2, 6)
	coms := append([]string{}, comPool[:7]...)
	perm := r.Perm(len(coms))
	var cs []string
	for _, i := range perm[:ncom] {
		cs = append(cs, coms[i])
	}
	j := &Journal{}
	shape := r.Intn(4) // 0 tree, 1 graph with extra edges, 2 possibly disconnected, 3 redeclarations
	day0 := D(2020, 1, 1)
	type pair struct{ a, b string }
	declared := map[pair]bool{}
	addDecl := func(d Day, a, b string, p Q) {
		dir := Dir{Kind: "price", Date: d, Com: a, Price: p, Target: b, QStyle: r.Intn(3)}
		if r.P(0.1) {
			// quotes with more digits than knut calculates with: they count as declared
			// (in reciprocals and chains), and a tiny one is still not zero
			dir.PriceStr = []string{"0.000000012", "0.0000000049", "1.123456789123", "12.3456789012345", "0.99999999999", "3.000000001"}[r.Intn(6)]
		}
		j.Dirs = append(j.Dirs, dir)
		declared[pair{a, b}], declared[pair{b, a}] = true, true
	}
	price := func() Q {
		if r.P(0.04) {
			return -Q(r.Range(1, 99999)) // a negative quote is legal: only zero is rejected
		}
		switch r.Intn(5) {
		case 0:
			return Q(r.Range(1, 99999))
		case 1:
			return Q(r.Range(1, 500)) * QScale
		case 2:
			return Q(r.Range(1, 9)) * QScale / 10
		case 3:
			return 3 * QScale // 1/3 exercises the truncated reciprocal
		}
		return Q(r.Range(100, 99999)) * 100
	}
	for i := 1; i < ncom; i++ {
		if shape == 2 && r.P(0.25) {
			continue // leave this commodity unconnected
		}
		p := cs[r.Intn(i)]
		a, b := cs[i], p
		if r.P(0.4) {
			a, b = b, a
		}
		addDecl(day0+Day(r.Intn(3)), a, b, price())
	}
	if shape == 1 || shape == 3 {
		for k := r.Range(1, 4); k > 0; k-- {
			a, b := cs[r.Intn(ncom)], cs[r.Intn(ncom)]
			if a == b {
				continue
			}
			d := day0 + Day(r.Intn(6))
			// no two different prices for one pair on one day (excluded as ambiguous)
			clash := false
			for _, x := range j.Dirs {
				if x.Date == d && ((x.Com == a && x.Target == b) || (x.Com == b && x.Target == a)) {
					clash = true
				}
			}
			if !clash {
				addDecl(d, a, b, price())
			}
		}
	}
	if r.P(0.25) && len(j.Dirs) > 0 {
		// a later redeclaration the other way round whose price is exactly the
		// truncated reciprocal knut stored for the earlier one
		src := j.Dirs[r.Intn(len(j.Dirs))]
		rec := decimal.NewFromInt(1).Div(src.PriceDec()).Truncate(8)
		if !rec.IsZero() {
			d := src.Date + Day(r.Range(1, 3))
			clash := false
			for _, x := range j.Dirs {
				if x.Date == d && ((x.Com == src.Com && x.Target == src.Target) || (x.Com == src.Target && x.Target == src.Com)) {
					clash = true
				}
			}
			if !clash {
				j.Dirs = append(j.Dirs, Dir{Kind: "price", Date: d, Com: src.Target, Target: src.Com, PriceStr: rec.String(), Price: Q(rec.Mul(decimal.NewFromInt(QScale)).IntPart())})
			}
		}
	}
	if r.P(0.2) {
		// declarations from another age (before 1677, after 2262: outside the range of a
		// 64-bit nanosecond count) next to the modern ones: old ones are superseded by any
		// later declaration of the pair, future ones do not count yet
		for k := r.Range(1, 2); k > 0; k-- {
			a, b := cs[r.Intn(ncom)], cs[r.Intn(ncom)]
			if len(j.Dirs) > 0 && r.P(0.6) {
				x := j.Dirs[r.Intn(len(j.Dirs))]
				a, b = x.Com, x.Target
				if r.P(0.3) {
					a, b = b, a
				}
			}
			if a == b {
				continue
			}
			d := D(r.Range(1000, 1650), time.Month(r.Range(1, 12)), r.Range(1, 28))
			if r.P(0.3) {
				d = D(r.Range(2270, 2900), time.Month(r.Range(1, 12)), r.Range(1, 28))
			}
			addDecl(d, a, b, price())
		}
	}
	if r.P(0.08) {
		c.Sub = "zero-price"
		zero := Dir{Kind: "price", Date: day0 + 1, Com: cs[0], Price: 0, Target: cs[ncom-1]}
		if r.Bool() {
			j.Dirs = append(j.Dirs, zero)
		} else {
			// not the last quote of its day: valid quotes of other pairs follow it
			j.Dirs = append([]Dir{zero}, j.Dirs...)
			if ncom > 2 {
				j.Dirs = append(j.Dirs, Dir{Kind: "price", Date: day0 + 1, Com: cs[1], Price: 7 * QScale, Target: cs[0]})
			}
		}
	}
	c.J = j
	c.Val = cs[r.Intn(ncom)]
	c.Args = cs
	c.N = r.Intn(6) // day offset at which prices are queried
	for i := 0; i < 6; i++ {
		c.Scheds = append(c.Scheds, RandSched(r))
	}
	c.Scheds[0] = CanonSched()
	return c
}

func (c12) Eval(c *Case) (*Violation, bool) {
	rp := NewRefPrices(c.J)
	coms := c.Args
	day0 := D(2020, 1, 1)
	qday := day0 + Day(c.N)
	decls := append([]Dir{}, c.J.Dirs...)
	sort.SliceStable(decls, func(a, b int) bool { return decls[a].Date < decls[b].Date })
	// ---- library level: Insert in date order, Normalize under permuted map order
	for si, s := range c.Scheds {
		type res struct {
			insertErr string
			norm      map[string]decimal.Decimal
			valErr    map[string]bool
		}
		var got res
		sp := &Spec{Sched: s, Files: map[string]string{}}
		o := RunFunc(sp, func() {
			reg := commodity.NewCommodities()
			ps := make(price.Prices)
			for _, d := range decls {
				if d.Date > qday {
					break
				}
				if err := ps.Insert(reg.MustGet(d.Com), d.PriceDec(), reg.MustGet(d.Target)); err != nil {
					got.insertErr = err.Error()
				}
			}
			np := ps.Normalize(reg.MustGet(c.Val))
			got.norm = map[string]decimal.Decimal{}
			got.valErr = map[string]bool{}
			for _, cm := range coms {
				p, err := np.Price(reg.MustGet(cm))
				// valuing fails exactly when there is no price, whatever the amount (zero and
				// negative zero included), and otherwise is amount x price truncated to 8 decimals
				for _, a := range valuateAmounts {
					v, err2 := np.Valuate(reg.MustGet(cm), a)
					if (err == nil) != (err2 == nil) {
						got.insertErr = "Price and Valuate disagree about " + cm + " (amount " + a.String() + ")"
					} else if err2 == nil && !v.Equal(a.Mul(p).Truncate(8)) {
						got.insertErr = "Valuate(" + cm + ", " + a.String() + ") = " + v.String() + " with price " + p.String()
					}
				}
				if err != nil {
					got.valErr[cm] = true
					continue
				}
				got.norm[cm] = p
			}
		})
		if o.Outcome != simrt.OutReturned {
			return &Violation{Signature: "abnormal-end:" + o.Outcome, Msg: "price library driver ended with " + o.Outcome + " " + o.PanicValue, Detail: o.PanicStack}, false
		}
		hasZero := false
		for _, d := range decls {
			if d.PriceDec().IsZero() && d.Date <= qday {
				hasZero = true
			}
		}
		if hasZero && got.insertErr == "" {
			return &Violation{Signature: "zero-price-accepted", Msg: "Insert accepts a zero price"}, false
		}
		if !hasZero && got.insertErr != "" {
			return &Violation{Signature: "insert-error", Msg: got.insertErr}, false
		}
		want := rp.Normalized(qday, c.Val)
		for _, cm := range coms {
			alts, connected := want[cm]
			p, has := got.norm[cm]
			if !connected {
				if has {
					return &Violation{Signature: "price-for-unconnected", Msg: fmt.Sprintf("%s has no chain of declarations to %s but gets price %s", cm, c.Val, p)}, false
				}
				continue
			}
			if !has {
				return &Violation{Signature: "connected-without-price", Msg: fmt.Sprintf("%s is connected to %s but has no price (run %d)", cm, c.Val, si)}, false
			}
			if cm == c.Val {
				if !p.Equal(decimal.NewFromInt(1)) {
					return &Violation{Signature: "self-price-not-one", Msg: fmt.Sprintf("price of %s in itself is %s", cm, p)}, false
				}
				continue
			}
			if dp, ok := rp.Direct(qday, cm, c.Val); ok {
				if !p.Equal(dp) {
					return &Violation{Signature: "direct-declaration-ignored", Msg: fmt.Sprintf("run %d: %s is declared directly against %s (latest: %s) but its price is %s", si, cm, c.Val, dp, p), Detail: declsText(decls, qday)}, false
				}
				continue
			}
			okAlt := false
			for _, a := range alts {
				if a.Equal(p) {
					okAlt = true
				}
			}
			if !okAlt {
				return &Violation{Signature: "price-not-a-chain-product", Msg: fmt.Sprintf("run %d: price of %s in %s is %s; chains of latest declarations give %v", si, cm, c.Val, p, alts), Detail: declsText(decls, qday)}, false
			}
		}
	}
	// ---- through the command: a position in each commodity valued in Val
	var b strings.Builder
	b.WriteString("2019-12-01 open Assets:P\n2019-12-01 open Equity:Equity\n\n")
	for _, d := range decls {
		b.WriteString(d.Render())
	}
	b.WriteString("\n")
	n := 0
	for _, cm := range coms {
		fmt.Fprintf(&b, "%s \"buy %s\"\nEquity:Equity Assets:P 1 %s\n\n", qday, cm, cm)
		n++
	}
	files := map[string]string{"/w/p.knut": b.String()}
	argv := []string{"balance", "--color=false", "--digits", "8", "-v", c.Val, "-s", ".", "--to", qday.String(), "/w/p.knut"}
	o := Run(c.specFor(c.Scheds[len(c.Scheds)-1], files, argv))
	want := rp.Normalized(qday, c.Val)
	allConnected := true
	for _, cm := range coms {
		if _, ok := want[cm]; !ok {
			allConnected = false
		}
	}
	hasZero := c.Sub == "zero-price"
	if o.Outcome != simrt.OutReturned && o.Outcome != simrt.OutExit {
		return &Violation{Signature: "abnormal-end:" + o.Outcome, Msg: "balance -v ended with " + o.Outcome + " " + o.PanicValue}, false
	}
	if (!allConnected || hasZero) && o.OK() {
		return &Violation{Signature: "valuation-succeeds-without-price", Msg: "balance -v succeeds although a commodity is not connected to the valuation commodity (or a price is zero)", Detail: o.Stdout}, false
	}
	if allConnected && !hasZero {
		if !o.OK() {
			return &Violation{Signature: "valuation-fails-with-prices", Msg: "balance -v fails although every commodity is connected", Detail: o.Stderr}, false
		}
		t, err := ParseBalText(o.Stdout)
		if err != nil {
			return &Violation{Signature: "unreadable-table", Msg: err.Error(), Detail: o.Stdout}, false
		}
		for _, row := range t.Rows {
			if row.Path != "Assets:P" || row.Com == "" {
				continue
			}
			got := row.Vals[len(row.Vals)-1]
			okAlt := false
			if dp, ok := rp.Direct(qday, row.Com, c.Val); ok && row.Com != c.Val {
				okAlt = dp.Equal(got)
			} else {
				for _, a := range want[row.Com] {
					if a.Equal(got) {
						okAlt = true
					}
				}
			}
			if !okAlt {
				return &Violation{Signature: "balance-value-not-a-chain-product", Msg: fmt.Sprintf("1 %s is valued %s %s; declarations give %v", row.Com, got, c.Val, want[row.Com]), Detail: declsText(decls, qday) + o.Stdout}, false
			}
		}
	}
	return nil, false
}

func declsText(ds []Dir, upTo Day) string {
	var b strings.Builder
	for _, d := range ds {
		if d.Date <= upTo {
			b.WriteString(d.Render())
		}
	}
	return b.String()
}
