package harness

import (
	"encoding/json"
	"fmt"
	"os"
	"runtime/debug"
	"sort"
	"strings"
	"time"

	"knutsim/simrt"
)

// Case is one generated workload of one property check, complete enough to be
// re-evaluated from its JSON form (replay) and to be shrunk structurally.
type Case struct {
	Prop   string              `json:"property"`
	Sub    string              `json:"sub"`
	Seed   uint64              `json:"seed"`
	Index  int                 `json:"index"`
	J      *Journal            `json:"journal,omitempty"`
	L      *Layout             `json:"layout,omitempty"`
	Ls     []*Layout           `json:"layouts,omitempty"`
	Files  map[string]string   `json:"files,omitempty"`
	Links  map[string]string   `json:"links,omitempty"`
	Cmd    string              `json:"cmd,omitempty"`
	Args   []string            `json:"args,omitempty"`
	ArgSet [][]string          `json:"arg_sets,omitempty"`
	Val    string              `json:"valuation,omitempty"`
	Today  string              `json:"today,omitempty"`
	Scheds []Sched             `json:"scheds,omitempty"`
	Faults map[int]simrt.Fault `json:"faults,omitempty"`
	N      int                 `json:"n,omitempty"`
	Note   string              `json:"note,omitempty"`
	Gen    *GenCfg             `json:"gen,omitempty"`
	Tier   string              `json:"tier,omitempty"`
}

// Violation is a property violation found on one case.
type Violation struct {
	Prop      string `json:"property"`
	Sub       string `json:"sub"`
	Signature string `json:"signature"` // narrow class, used to match known findings and to steer shrinking
	Msg       string `json:"msg"`
	Detail    string `json:"detail,omitempty"`
}

// Prop is what a property check implements.
type Prop interface {
	ID() string
	// Gen draws the idx-th case of the given tier.
	Gen(r *simrt.Rand, idx int, tier string) *Case
	// Eval runs the case and returns a violation or nil. vacuous reports that
	// the case could not exercise the oracle (counted, not a pass).
	Eval(c *Case) (v *Violation, vacuous bool)
}

var registry = map[string]Prop{}

func Register(p Prop) { registry[p.ID()] = p }

// ---- job / result exchanged with the driver ------------------------------------------

type Job struct {
	Prop     string  `json:"property"`
	Tier     string  `json:"tier"`
	Seed     uint64  `json:"seed"`
	Worker   int     `json:"worker"`
	Workers  int     `json:"workers"`
	MaxCases int     `json:"max_cases"`
	MaxSecs  float64 `json:"max_secs"`
	Out      string  `json:"out"`
	Replay   string  `json:"replay,omitempty"` // replay file: evaluate exactly that case
	ShrinkS  float64 `json:"shrink_secs"`
}

type Found struct {
	V        *Violation `json:"violation"`
	Case     *Case      `json:"case"`
	Original *Case      `json:"original_case,omitempty"`
	Shrunk   int        `json:"shrink_steps"`
	// Rendered shows the minimised workload as files, for human readers; the
	// replay itself is driven by Case.
	Rendered map[string]string `json:"rendered_files,omitempty"`
	Replay   string            `json:"how_to_replay,omitempty"`
}

type JobResult struct {
	Prop        string         `json:"property"`
	Worker      int            `json:"worker"`
	Cases       int            `json:"cases"`
	Vacuous     int            `json:"vacuous"`
	Runs        int            `json:"runs"`
	Steps       int            `json:"steps"`
	WallS       float64        `json:"wall_s"`
	Outcomes    map[string]int `json:"outcomes"`
	Probes      map[string]int `json:"probes"`
	Faults      map[string]int `json:"faults"`
	EventHashes []uint64       `json:"event_hashes"`
	CaseHashes  []uint64       `json:"case_hashes"`
	MaxTasks    int            `json:"max_tasks"`
	Found       []Found        `json:"found"`
	Samples     []any          `json:"samples"`
	Subs        map[string]int `json:"subs"`
	Infra       string         `json:"infra,omitempty"`
	Extra       map[string]int `json:"extra,omitempty"`
}

// Extra is a per-process bag of counters that oracles may bump (evidence).
var Extra = map[string]int{}

// Shrinking is set while candidates are evaluated for minimisation; their
// runs are not counted as coverage.
var Shrinking bool

func caseSeed(seed uint64, prop string, idx int) uint64 {
	return simrt.Mix(seed, simrt.MixString(prop), uint64(idx))
}

func caseHash(c *Case) uint64 {
	b, _ := json.Marshal(struct {
		J      *Journal
		F      map[string]string
		A      []string
		AS     [][]string
		S      string
		Faults map[int]simrt.Fault
		N      int
	}{c.J, c.Files, c.Args, c.ArgSet, c.Sub, c.Faults, c.N})
	return simrt.MixString(string(b))
}

func sampleOf(c *Case) any {
	m := map[string]any{"sub": c.Sub, "index": c.Index}
	if c.J != nil && c.L != nil {
		fs := c.L.Files(c.J)
		names := make([]string, 0, len(fs))
		for n := range fs {
			names = append(names, n)
		}
		sort.Strings(names)
		m["files"] = names
		main := fs[c.L.Main()]
		if len(main) > 600 {
			main = main[:600] + "…"
		}
		m["main_file"] = main
	}
	if len(c.Files) > 0 {
		fm := map[string]string{}
		for n, s := range c.Files {
			if len(s) > 300 {
				s = s[:300] + "…"
			}
			fm[n] = s
		}
		m["files"] = fm
	}
	if c.Cmd != "" {
		m["cmd"] = c.Cmd
	}
	if len(c.Args) > 0 {
		m["args"] = c.Args
	}
	if len(c.ArgSet) > 0 {
		m["arg_sets"] = c.ArgSet
	}
	if len(c.Scheds) > 0 {
		m["scheds"] = c.Scheds
	}
	if len(c.Faults) > 0 {
		m["faults"] = c.Faults
	}
	if c.Note != "" {
		m["note"] = c.Note
	}
	return m
}

// RunJob is the worker entry point.
func RunJob(job *Job) (res *JobResult) {
	res = &JobResult{Prop: job.Prop, Worker: job.Worker, Subs: map[string]int{}}
	p := registry[job.Prop]
	if p == nil {
		res.Infra = "unknown property " + job.Prop
		return res
	}
	start := time.Now()
	defer func() {
		if r := recover(); r != nil {
			if ie, ok := r.(InfraError); ok {
				res.Infra = ie.Msg
			} else {
				res.Infra = fmt.Sprintf("harness panic: %v\n%s", r, debug.Stack())
			}
		}
		res.WallS = time.Since(start).Seconds()
		res.Runs = Ctr.Runs
		res.Steps = Ctr.Steps
		res.Outcomes = Ctr.Outcomes
		res.Probes = Ctr.Probes
		res.Faults = Ctr.Faults
		res.MaxTasks = Ctr.MaxTasks
		res.Extra = Extra
		for h := range Ctr.EventHashes {
			res.EventHashes = append(res.EventHashes, h)
		}
	}()
	if job.Prop == "C14" {
		startCPUGuard(job, res)
	}
	if job.Replay != "" {
		var f Found
		b, err := os.ReadFile(job.Replay)
		if err != nil {
			res.Infra = err.Error()
			return res
		}
		if err := json.Unmarshal(b, &f); err != nil {
			res.Infra = err.Error()
			return res
		}
		guardCase.Store(f.Case)
		v, _ := p.Eval(f.Case)
		res.Cases = 1
		if v != nil {
			res.Found = append(res.Found, Found{V: v, Case: f.Case})
		}
		return res
	}
	seenSig := map[string]bool{}
	for idx := job.Worker; ; idx += job.Workers {
		if job.MaxCases > 0 && idx >= job.MaxCases {
			break
		}
		if job.MaxSecs > 0 && time.Since(start).Seconds() > job.MaxSecs {
			break
		}
		r := simrt.NewRand(caseSeed(job.Seed, job.Prop, idx))
		c := p.Gen(r, idx, job.Tier)
		if c == nil {
			continue
		}
		c.Prop, c.Seed, c.Index, c.Tier = job.Prop, job.Seed, idx, job.Tier
		res.Cases++
		res.Subs[c.Sub]++
		if len(res.Samples) < 2 || (len(res.Samples) < 6 && res.Subs[c.Sub] == 1) {
			res.Samples = append(res.Samples, sampleOf(c))
		}
		guardCase.Store(c)
		v, vac := p.Eval(c)
		if vac {
			res.Vacuous++
		} else {
			res.CaseHashes = append(res.CaseHashes, caseHash(c))
		}
		if v == nil {
			continue
		}
		v.Prop, v.Sub = job.Prop, c.Sub
		if seenSig[v.Signature] && len(res.Found) >= 3 {
			continue // one class is reported a few times at most per worker
		}
		seenSig[v.Signature] = true
		orig := cloneCase(c)
		small, steps := Shrink(p, c, v, job.ShrinkS)
		v2, _ := p.Eval(small)
		if v2 == nil || v2.Signature != v.Signature {
			small, v2, steps = orig, v, 0
		}
		v2.Prop, v2.Sub = job.Prop, small.Sub
		fd := Found{V: v2, Case: small, Original: orig, Shrunk: steps, Replay: "bin/check " + job.Prop + " quick --replay <this file>: the case (journal, layout, files, argv, schedules: seed or tape, map order, lock-yield, bias, workers; fault plan) is evaluated again by the same oracle in a fresh process"}
		if small.J != nil && small.L != nil {
			fd.Rendered = small.L.Files(small.J)
		}
		res.Found = append(res.Found, fd)
		if len(res.Found) >= 8 {
			break
		}
	}
	return res
}

func cloneCase(c *Case) *Case {
	b, _ := json.Marshal(c)
	var d Case
	_ = json.Unmarshal(b, &d)
	return &d
}

// ---- generic shrinking ----------------------------------------------------------------

// Shrink reduces a failing case while the same signature persists.
func Shrink(p Prop, c *Case, v *Violation, maxSecs float64) (*Case, int) {
	if maxSecs <= 0 {
		maxSecs = 20
	}
	deadline := time.Now().Add(time.Duration(maxSecs * float64(time.Second)))
	cur := cloneCase(c)
	steps := 0
	Shrinking = true
	defer func() { Shrinking = false }()
	try := func(cand *Case) bool {
		if time.Now().After(deadline) {
			return false
		}
		if cand.J != nil {
			if !RefCheck(cand.J).OK && RefCheck(c.J).OK {
				return false // keep accepted journals accepted
			}
		}
		v2, _ := safeEval(p, cand)
		if v2 != nil && v2.Signature == v.Signature {
			cur = cand
			steps++
			return true
		}
		return false
	}
	for pass := 0; pass < 4; pass++ {
		before := steps
		// 1. canonical layout
		if cur.L != nil && cur.J != nil && len(cur.L.Names) > 1 {
			cand := cloneCase(cur)
			cand.L = CanonLayout(cand.J)
			try(cand)
		}
		// 2. drop directives (chunks, then singles)
		if cur.J != nil {
			for chunk := len(cur.J.Dirs) / 2; chunk >= 1; chunk /= 2 {
				for i := 0; i+chunk <= len(cur.J.Dirs); {
					cand := cloneCase(cur)
					cand.J.Dirs = append(append([]Dir{}, cand.J.Dirs[:i]...), cand.J.Dirs[i+chunk:]...)
					cand.L = relayout(cur, i, chunk)
					if !try(cand) {
						i += chunk
					}
				}
			}
			// drop bookings / balances inside directives
			for i := 0; i < len(cur.J.Dirs); i++ {
				for len(cur.J.Dirs[i].Bookings) > 1 {
					cand := cloneCase(cur)
					cand.J.Dirs[i].Bookings = cand.J.Dirs[i].Bookings[1:]
					if !try(cand) {
						break
					}
				}
				if cur.J.Dirs[i].Accrual != nil {
					cand := cloneCase(cur)
					cand.J.Dirs[i].Accrual = nil
					try(cand)
				}
				if cur.J.Dirs[i].HasPerf {
					cand := cloneCase(cur)
					cand.J.Dirs[i].HasPerf = false
					cand.J.Dirs[i].Perf = nil
					try(cand)
				}
			}
		}
		// 3. drop flags
		for i := 0; i < len(cur.Args); {
			cand := cloneCase(cur)
			n := 1
			if i+1 < len(cur.Args) && !strings.HasPrefix(cur.Args[i+1], "-") && strings.HasPrefix(cur.Args[i], "-") && !strings.Contains(cur.Args[i], "=") {
				n = 2
			}
			cand.Args = append(append([]string{}, cand.Args[:i]...), cand.Args[i+n:]...)
			if !try(cand) {
				i += n
			}
		}
		if len(cur.ArgSet) > 1 {
			for i := 0; i < len(cur.ArgSet); {
				cand := cloneCase(cur)
				cand.ArgSet = append(append([][]string{}, cand.ArgSet[:i]...), cand.ArgSet[i+1:]...)
				if len(cand.ArgSet) == 0 || !try(cand) {
					i++
				}
			}
		}
		// 4. simplify schedules
		for i := range cur.Scheds {
			s := cur.Scheds[i]
			if s.MapMode != 0 || s.MapSeed != 0 {
				cand := cloneCase(cur)
				cand.Scheds[i].MapMode, cand.Scheds[i].MapSeed = 0, 0
				try(cand)
			}
			if s.Bias != 0 || s.LockYield != 0 {
				cand := cloneCase(cur)
				cand.Scheds[i].Bias, cand.Scheds[i].LockYield = 0, 0
				try(cand)
			}
			if s.Seed != 0 && s.Tape == nil {
				cand := cloneCase(cur)
				cand.Scheds[i].Seed = 0
				cand.Scheds[i].Tape = nil
				try(cand)
			}
		}
		if len(cur.Scheds) > 2 {
			for i := len(cur.Scheds) - 1; i >= 1 && len(cur.Scheds) > 2; i-- {
				cand := cloneCase(cur)
				cand.Scheds = append(append([]Sched{}, cand.Scheds[:i]...), cand.Scheds[i+1:]...)
				try(cand)
			}
		}
		// 5. drop faults
		if len(cur.Faults) > 1 {
			keys := make([]int, 0, len(cur.Faults))
			for k := range cur.Faults {
				keys = append(keys, k)
			}
			sort.Ints(keys)
			for _, k := range keys {
				cand := cloneCase(cur)
				delete(cand.Faults, k)
				try(cand)
			}
		}
		// 6. drop raw files
		if len(cur.Files) > 1 {
			names := make([]string, 0, len(cur.Files))
			for n := range cur.Files {
				names = append(names, n)
			}
			sort.Strings(names)
			for _, n := range names {
				cand := cloneCase(cur)
				delete(cand.Files, n)
				try(cand)
			}
		}
		if steps == before {
			break
		}
	}
	return cur, steps
}

func safeEval(p Prop, c *Case) (v *Violation, vac bool) {
	defer func() {
		if r := recover(); r != nil {
			if _, ok := r.(InfraError); ok {
				panic(r)
			}
			v, vac = nil, true // a shrink candidate that breaks the harness is just rejected
		}
	}()
	return p.Eval(c)
}

// relayout removes positions of dropped directives from the layout.
func relayout(c *Case, from, n int) *Layout {
	if c.L == nil {
		return nil
	}
	l := *c.L
	var order, file []int
	for pos, di := range c.L.Order {
		if di >= from && di < from+n {
			continue
		}
		if di >= from+n {
			di -= n
		}
		order = append(order, di)
		file = append(file, c.L.File[pos])
	}
	l.Order, l.File = order, file
	return &l
}
