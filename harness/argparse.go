package harness

import (
	"fmt"
	"strconv"
	"strings"

	"github.com/shopspring/decimal"
)

type decimalT = decimal.Decimal

var zeroDec = decimal.Zero

func decimalFromString(s string) (decimal.Decimal, error) { return decimal.NewFromString(s) }

// ParseBalArgs reads the balance flags back from an argv fragment (the case
// stores flags as argv so that shrinking can drop them one by one).
func ParseBalArgs(args []string) (*BalFlags, error) {
	f := &BalFlags{}
	for i := 0; i < len(args); i++ {
		a := args[i]
		next := func() (string, error) {
			if i+1 >= len(args) {
				return "", fmt.Errorf("flag %s needs a value", a)
			}
			i++
			return args[i], nil
		}
		switch {
		case a == "--from" || a == "--to":
			v, err := next()
			if err != nil {
				return nil, err
			}
			d, err := ParseDay(v)
			if err != nil {
				return nil, err
			}
			if a == "--from" {
				f.From = &d
			} else {
				f.To = &d
			}
		case a == "--days":
			f.Interval = IvDaily
		case a == "--weeks":
			f.Interval = IvWeekly
		case a == "--months":
			f.Interval = IvMonthly
		case a == "--quarters":
			f.Interval = IvQuarterly
		case a == "--years":
			f.Interval = IvYearly
		case a == "--last":
			v, err := next()
			if err != nil {
				return nil, err
			}
			f.Last, _ = strconv.Atoi(v)
		case a == "--diff":
			f.Diff = true
		case strings.HasPrefix(a, "--close="):
			b := a == "--close=true"
			f.Close = &b
		case a == "-a":
			f.SortAlpha = true
		case a == "-v":
			v, err := next()
			if err != nil {
				return nil, err
			}
			f.Val = v
		case a == "-s":
			v, err := next()
			if err != nil {
				return nil, err
			}
			f.ShowCom = v
		case a == "--account":
			v, err := next()
			if err != nil {
				return nil, err
			}
			f.Accounts = append(f.Accounts, v)
		case a == "--commodity":
			v, err := next()
			if err != nil {
				return nil, err
			}
			f.Commodities = append(f.Commodities, v)
		case a == "--remap":
			v, err := next()
			if err != nil {
				return nil, err
			}
			f.Remap = append(f.Remap, v)
		case a == "-m":
			v, err := next()
			if err != nil {
				return nil, err
			}
			parts := strings.SplitN(v, ",", 2)
			m := Mapping{}
			ls := strings.Split(parts[0], ":")
			m.Level, _ = strconv.Atoi(ls[0])
			if len(ls) == 2 {
				m.HasSuffix = true
				m.Suffix, _ = strconv.Atoi(ls[1])
			}
			if len(parts) == 2 {
				m.Regex = parts[1]
			}
			f.Mappings = append(f.Mappings, m)
		case a == "--digits":
			v, err := next()
			if err != nil {
				return nil, err
			}
			f.Digits, _ = strconv.Atoi(v)
		case a == "-k":
			f.Thousands = true
		case a == "--csv":
			f.CSV = true
		case a == "--color=false":
		default:
			return nil, fmt.Errorf("unknown flag %q", a)
		}
	}
	return f, nil
}
