package harness

import (
	"encoding/json"
	"fmt"
	"os"
	"sync/atomic"
	"syscall"
	"time"
)

// CPU guard (C14: "every command terminates"). The step and task budgets of the scheduler see
// work that passes scheduling points; a command that spins or computes without end inside one
// transition (a power of ten with two billion digits, say) reaches none. A monitor goroutine
// outside the bubbles watches the CPU time this process has consumed since the current simulated
// run began. CPU time, not wall-clock time: a loaded machine does not inflate it. Ordinary runs
// take milliseconds, the heaviest legitimate ones (hundreds of thousands of accrual periods)
// seconds; cpuBudget stands for "does not terminate" the way the step budget does.
const cpuBudget = 150 * time.Second

type guardState struct {
	c     *Case
	argv  []string
	start time.Duration
}

var guardCur atomic.Pointer[guardState]
var guardCase atomic.Pointer[Case]

func procCPU() time.Duration {
	var ru syscall.Rusage
	if err := syscall.Getrusage(syscall.RUSAGE_SELF, &ru); err != nil {
		return 0
	}
	return time.Duration(ru.Utime.Nano() + ru.Stime.Nano())
}

// guardRunStart is called by RunFunc when a simulated run begins, guardRunEnd when it has ended.
func guardRunStart(spec *Spec) {
	if guardCase.Load() == nil {
		return
	}
	guardCur.Store(&guardState{c: guardCase.Load(), argv: spec.Argv, start: procCPU()})
}

func guardRunEnd() { guardCur.Store(nil) }

// startCPUGuard arms the guard for the job; a run that exceeds the budget ends the worker with
// that case as its (unshrunk) finding.
func startCPUGuard(job *Job, res *JobResult) {
	go func() {
		for {
			time.Sleep(500 * time.Millisecond)
			g := guardCur.Load()
			if g == nil || procCPU()-g.start < cpuBudget {
				continue
			}
			v := &Violation{Prop: job.Prop, Sub: g.c.Sub, Signature: "does-not-terminate:cpu-budget",
				Msg: fmt.Sprintf("%v has consumed more than %v of CPU time inside one simulated run without ending (no deadlock: it computes)", g.argv, cpuBudget)}
			out := &JobResult{Prop: job.Prop, Worker: job.Worker, Cases: res.Cases, Vacuous: res.Vacuous,
				Outcomes: map[string]int{}, Probes: map[string]int{"cpu-guard-fired": 1}, Faults: map[string]int{}, Subs: map[string]int{},
				Found: []Found{{V: v, Case: g.c, Replay: "bin/check " + job.Prop + " quick --replay <this file>: the case is evaluated again under the same CPU guard in a fresh process"}}}
			b, _ := json.Marshal(out)
			os.WriteFile(job.Out, b, 0o644)
			os.Exit(0)
		}
	}()
}
