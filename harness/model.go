package harness

import (
	"fmt"
	"sort"
	"strings"
	"time"
)

// ---- dates -----------------------------------------------------------------

// Day counts days since 1970-01-01 (UTC).
type Day int

func D(y int, m time.Month, d int) Day {
	return Day(time.Date(y, m, d, 0, 0, 0, 0, time.UTC).Unix() / 86400)
}
func (d Day) Time() time.Time { return time.Unix(int64(d)*86400, 0).UTC() }
func (d Day) String() string  { return d.Time().Format("2006-01-02") }
func ParseDay(s string) (Day, error) {
	t, err := time.Parse("2006-01-02", s)
	if err != nil {
		return 0, err
	}
	return Day(t.Unix() / 86400), nil
}

// Interval names as knut's flags spell them.
const (
	IvOnce = iota
	IvDaily
	IvWeekly
	IvMonthly
	IvQuarterly
	IvYearly
)

var ivFlag = []string{"", "--days", "--weeks", "--months", "--quarters", "--years"}
var ivAccrual = []string{"once", "daily", "weekly", "monthly", "quarterly", "yearly"}

// periodStart is the reference's own calendar arithmetic (independent of knut's
// date package): first day of the day/week(Mon-Sun)/month/quarter/year of d.
func periodStart(d Day, iv int) Day {
	t := d.Time()
	switch iv {
	case IvWeekly:
		wd := (int(t.Weekday()) + 6) % 7 // Monday = 0
		return d - Day(wd)
	case IvMonthly:
		return D(t.Year(), t.Month(), 1)
	case IvQuarterly:
		q := (int(t.Month()) - 1) / 3
		return D(t.Year(), time.Month(q*3+1), 1)
	case IvYearly:
		return D(t.Year(), 1, 1)
	}
	return d
}

func periodEnd(d Day, iv int) Day {
	t := d.Time()
	switch iv {
	case IvWeekly:
		return periodStart(d, iv) + 6
	case IvMonthly:
		return D(t.Year(), t.Month()+1, 1) - 1
	case IvQuarterly:
		s := periodStart(d, iv).Time()
		return D(s.Year(), s.Month()+3, 1) - 1
	case IvYearly:
		return D(t.Year(), 12, 31)
	}
	return d
}

// Span is an inclusive period.
type Span struct{ Start, End Day }

// partition splits [start,end] into calendar periods of the interval (the
// first and last clipped to the window); with last > 0 only the last n are kept.
func partition(start, end Day, iv int, last int) []Span {
	if iv == IvOnce {
		return []Span{{start, end}}
	}
	var ps []Span
	for s := start; s <= end; {
		e := periodEnd(s, iv)
		if e > end {
			e = end
		}
		ps = append(ps, Span{s, e})
		s = e + 1
	}
	if last > 0 && len(ps) > last {
		ps = ps[len(ps)-last:]
	}
	return ps
}

// ---- quantities ----------------------------------------------------------------

// Q is a quantity in units of 1e-4.
type Q int64

const QScale = 10000

func (q Q) String() string {
	neg := q < 0
	u := int64(q)
	if neg {
		u = -u
	}
	s := fmt.Sprintf("%d", u/QScale)
	if f := u % QScale; f != 0 {
		fs := fmt.Sprintf("%04d", f)
		fs = strings.TrimRight(fs, "0")
		s += "." + fs
	}
	if neg {
		s = "-" + s
	}
	return s
}

// Render prints q the way a user might write it: style 0 minimal, 1 with
// trailing zeros (4 decimals), 2 with one trailing zero if integral.
func (q Q) Render(style int) string {
	s := q.String()
	switch style {
	case 1:
		if i := strings.IndexByte(s, '.'); i < 0 {
			return s + ".0000"
		} else {
			return s + strings.Repeat("0", 4-(len(s)-i-1))
		}
	case 2:
		if !strings.Contains(s, ".") {
			return s + ".0"
		}
	}
	return s
}

// ---- directives ------------------------------------------------------------------

type Booking struct {
	Credit, Debit string
	Qty           Q
	Com           string
	// Deep: further decimal digits appended to the rendered quantity (a wei-precision
	// amount); only for checks whose oracle does not compute with Qty.
	Deep string `json:",omitempty"`
}

type Accrual struct {
	Interval   int
	Start, End Day
	Account    string
}

type Bal struct {
	Account string
	Qty     Q
	Com     string
}

type Dir struct {
	Kind string // open close txn assert price
	Date Day

	Account string // open, close

	Desc     string // txn
	Bookings []Booking
	Accrual  *Accrual
	Perf     []string // nil: no annotation; empty non-nil: @performance()
	HasPerf  bool

	Balances []Bal // assert
	Multi    bool

	Com    string // price
	Price  Q
	// PriceStr, when set, is the price as written (up to 8 decimals); Price is
	// then only its 4-decimal approximation.
	PriceStr string
	Target string

	QStyle int
}

func (d *Dir) Render() string {
	var b strings.Builder
	switch d.Kind {
	case "open":
		fmt.Fprintf(&b, "%s open %s\n", d.Date, d.Account)
	case "close":
		fmt.Fprintf(&b, "%s close %s\n", d.Date, d.Account)
	case "price":
		ps := d.Price.Render(d.QStyle)
		if d.PriceStr != "" {
			ps = d.PriceStr
		}
		fmt.Fprintf(&b, "%s price %s %s %s\n", d.Date, d.Com, ps, d.Target)
	case "assert":
		if d.Multi || len(d.Balances) != 1 {
			fmt.Fprintf(&b, "%s balance\n", d.Date)
			for _, bl := range d.Balances {
				fmt.Fprintf(&b, "%s %s %s\n", bl.Account, bl.Qty.Render(d.QStyle), bl.Com)
			}
		} else {
			bl := d.Balances[0]
			fmt.Fprintf(&b, "%s balance %s %s %s\n", d.Date, bl.Account, bl.Qty.Render(d.QStyle), bl.Com)
		}
	case "txn":
		if d.HasPerf {
			fmt.Fprintf(&b, "@performance(%s)\n", strings.Join(d.Perf, ","))
		}
		if d.Accrual != nil {
			fmt.Fprintf(&b, "@accrue %s %s %s %s\n", ivAccrual[d.Accrual.Interval], d.Accrual.Start, d.Accrual.End, d.Accrual.Account)
		}
		fmt.Fprintf(&b, "%s \"%s\"\n", d.Date, d.Desc)
		for _, bk := range d.Bookings {
			qs := bk.Qty.Render(d.QStyle)
			if bk.Deep != "" {
				if !strings.Contains(qs, ".") {
					qs += ".0000"
				}
				qs += bk.Deep
			}
			fmt.Fprintf(&b, "%s %s %s %s\n", bk.Credit, bk.Debit, qs, bk.Com)
		}
	}
	return b.String()
}

// needsBlank reports whether the directive must be followed by a blank line
// (its body is terminated by one).
func (d *Dir) needsBlank() bool {
	return d.Kind == "txn" || (d.Kind == "assert" && (d.Multi || len(d.Balances) != 1))
}

// Journal is a generated journal: directives plus the knowledge of what they mean.
type Journal struct {
	Dirs []Dir
}

// ---- postings (reference expansion) ---------------------------------------------

type Posting struct {
	Date    Day
	Account string
	Other   string
	Com     string
	Qty     Q
	Desc    string
	// InAccrualWindow marks postings produced by splitting an accrual whose
	// amount is not an exact multiple: their individual size is not fixed by
	// the property, only their total.
	Inexact bool
	Src     int // index of the directive
}

func acctType(a string) string {
	if i := strings.IndexByte(a, ':'); i >= 0 {
		return a[:i]
	}
	return a
}
func isAL(a string) bool { t := acctType(a); return t == "Assets" || t == "Liabilities" }
func isIE(a string) bool { t := acctType(a); return t == "Income" || t == "Expenses" }

// pair books qty from credit to debit (negative quantities swap the roles, which
// changes nothing in the signed sums).
func pair(date Day, credit, debit, com string, qty Q, desc string, src int) []Posting {
	return []Posting{
		{Date: date, Account: credit, Other: debit, Com: com, Qty: -qty, Desc: desc, Src: src},
		{Date: date, Account: debit, Other: credit, Com: com, Qty: qty, Desc: desc, Src: src},
	}
}

// Expand returns the postings a transaction stands for. Accruals follow the rule
// the property states (C10): every leg is re-booked against the accrual account;
// income/expense legs are split over the periods of the accrual window and dated
// at the period ends (remainder on the first part), all other legs keep date and
// amount.
func (d *Dir) Expand(src int) []Posting {
	if d.Kind != "txn" {
		return nil
	}
	var ps []Posting
	if d.Accrual == nil {
		for _, b := range d.Bookings {
			ps = append(ps, pair(d.Date, b.Credit, b.Debit, b.Com, b.Qty, d.Desc, src)...)
		}
		return ps
	}
	a := d.Accrual
	parts := partition(a.Start, a.End, a.Interval, 0)
	n := int64(len(parts))
	for _, b := range d.Bookings {
		for _, leg := range []struct {
			acc string
			q   Q
		}{{b.Credit, -b.Qty}, {b.Debit, b.Qty}} {
			if isIE(leg.acc) && n > 0 {
				// parts of one decimal place, remainder on the first
				unit := int64(QScale / 10)
				per := (int64(leg.q) / n) / unit * unit
				rem := int64(leg.q) - per*n
				inexact := rem != 0
				for i, p := range parts {
					q := per
					if i == 0 {
						q += rem
					}
					desc := fmt.Sprintf("%s (accrual %d/%d)", d.Desc, i+1, n)
					pp := pair(p.End, a.Account, leg.acc, b.Com, Q(q), desc, src)
					for k := range pp {
						pp[k].Inexact = inexact
					}
					ps = append(ps, pp...)
				}
			} else {
				ps = append(ps, pair(d.Date, a.Account, leg.acc, b.Com, leg.q, d.Desc, src)...)
			}
		}
	}
	return ps
}

// Postings of the whole journal, in directive order.
func (j *Journal) Postings() []Posting {
	var ps []Posting
	for i := range j.Dirs {
		ps = append(ps, j.Dirs[i].Expand(i)...)
	}
	return ps
}

// ---- RefCheck: the account lifecycle and assertions (C04) ---------------------------

type Verdict struct {
	OK        bool
	Offending []int // directive indices that may legitimately be named
	Why       string
}

var kindOrder = map[string]int{"price": 0, "open": 1, "txn": 2, "assert": 3, "close": 4}

// RefCheck decides acceptance by the rule C04 states: by date, and within a day
// prices, opens, transactions, assertions, closes.
func RefCheck(j *Journal) Verdict {
	type ev struct {
		day  Day
		kind int
		idx  int
		post *Posting
	}
	var evs []ev
	for i := range j.Dirs {
		d := &j.Dirs[i]
		if d.Kind == "txn" {
			ps := d.Expand(i)
			for k := range ps {
				evs = append(evs, ev{ps[k].Date, 2, i, &ps[k]})
			}
			continue
		}
		evs = append(evs, ev{d.Date, kindOrder[d.Kind], i, nil})
	}
	sort.SliceStable(evs, func(a, b int) bool {
		if evs[a].day != evs[b].day {
			return evs[a].day < evs[b].day
		}
		return evs[a].kind < evs[b].kind
	})
	// The verdict must not depend on the order of same-day same-kind
	// directives except for genuinely order-dependent journals (double open
	// on one day is an error in any order). We evaluate group by group and
	// collect every directive of the failing group that is implicated.
	open := map[string]bool{}
	pos := map[[2]string]Q{}
	for s := 0; s < len(evs); {
		e := s
		for e < len(evs) && evs[e].day == evs[s].day && evs[e].kind == evs[s].kind {
			e++
		}
		grp := evs[s:e]
		var bad []int
		why := ""
		switch grp[0].kind {
		case 1:
			seen := map[string][]int{}
			for _, g := range grp {
				a := j.Dirs[g.idx].Account
				seen[a] = append(seen[a], g.idx)
			}
			for a, idxs := range seen {
				if open[a] {
					bad = append(bad, idxs...)
					why = "account already open: " + a
				} else if len(idxs) > 1 {
					bad = append(bad, idxs...)
					why = "account opened twice on one day: " + a
				}
				open[a] = true
			}
		case 2:
			for _, g := range grp {
				if !open[g.post.Account] {
					bad = append(bad, g.idx)
					why = "posting to an account that is not open: " + g.post.Account
				}
				if isAL(g.post.Account) {
					pos[[2]string{g.post.Account, g.post.Com}] += g.post.Qty
				}
			}
		case 3:
			for _, g := range grp {
				for _, b := range j.Dirs[g.idx].Balances {
					if !open[b.Account] {
						bad = append(bad, g.idx)
						why = "assertion on an account that is not open: " + b.Account
						continue
					}
					if !isAL(b.Account) {
						continue // the property is silent about other accounts
					}
					if pos[[2]string{b.Account, b.Com}] != b.Qty {
						bad = append(bad, g.idx)
						why = fmt.Sprintf("assertion %s %s %s but position is %s", b.Account, b.Qty, b.Com, pos[[2]string{b.Account, b.Com}])
					}
				}
			}
		case 4:
			seen := map[string][]int{}
			for _, g := range grp {
				a := j.Dirs[g.idx].Account
				seen[a] = append(seen[a], g.idx)
			}
			for a, idxs := range seen {
				if !open[a] || len(idxs) > 1 {
					bad = append(bad, idxs...)
					why = "close of an account that is not open: " + a
				}
				for k, q := range pos {
					if k[0] == a {
						if q != 0 {
							bad = append(bad, idxs...)
							why = fmt.Sprintf("close of %s with position %s %s", a, q, k[1])
						}
						delete(pos, k)
					}
				}
				delete(open, a)
			}
		}
		if len(bad) > 0 {
			sort.Ints(bad)
			return Verdict{OK: false, Offending: bad, Why: why}
		}
		s = e
	}
	return Verdict{OK: true}
}

// PriceDec is the declared price as an exact decimal.
func (d *Dir) PriceDec() decimalT {
	if d.PriceStr != "" {
		if x, err := decimalFromString(d.PriceStr); err == nil {
			return x
		}
	}
	return qToDec(d.Price)
}
