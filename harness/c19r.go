package harness

import (
	"bytes"
	"fmt"
	"os"
	"os/exec"
	"path/filepath"
	"regexp"
	"strings"
	"time"

	"knutsim/simrt"
)

// C19 (d), engine R: no data race. The instrumented knut built with the race
// detector runs as a subprocess on real files, with seeded Gosched perturbation
// at every instrumented point and permuted map order, at GOMAXPROCS 1/4/16. A
// race is reported when it reproduces on a second run of the same workload and
// seed. The schedule itself is not replayed exactly (real goroutines); the
// detector's verdict depends on happens-before, not on timing luck.

func genRaceCase(r *simrt.Rand, c *Case, tier string) *Case {
	g := DefaultGen()
	g.Prices = "tree"
	g.MaxCom = 4
	g.MaxTxn = 25
	g.MaxSpan = 300
	if r.P(0.15) {
		// large journals: batching and buffer reuse only show above some size
		g.MaxTxn = 700
		g.MaxSpan = 700
		g.PAccrual = 0
		if r.P(0.5) {
			g.MinTxn, g.BusyDay = 400, true
		}
	}
	c.Gen = &g
	c.Sub = "race"
	c.J = Gen(r, g)
	c.L = RandLayout(r, c.J, 6)
	cs := c.J.Commodities()
	val := ""
	if len(cs) > 1 {
		val = cs[r.Intn(len(cs))]
	}
	switch r.Intn(11) {
	case 9:
		c.Cmd = "print"
	case 10:
		c.Cmd = "check"
		if r.P(0.5) {
			c.Args = []string{"--write"}
		}
	case 8:
		// infer on a target of several hundred bookings (code that goes parallel above a size)
		c.Cmd = "infer"
		var tg strings.Builder
		accs := c.J.Accounts()
		for k, n := 0, r.Range(520, 900); k < n && len(accs) > 0; k++ {
			fmt.Fprintf(&tg, "2021-%02d-%02d \"%s %d\"\n%s Expenses:TBD %d.%02d CHF\n\n", 1+k%12, 1+k%28, descPool[r.Intn(10)], k%7, accs[r.Intn(len(accs))], r.Range(1, 900), r.Intn(100))
		}
		c.Files = map[string]string{"target.knut": tg.String()}
	case 0, 1, 2, 3:
		c.Cmd = "balance"
		f := GenBalFlags(r, c.J, FlagOpts{Valued: val != "" && r.P(0.7), AlwaysTo: true})
		if f.Val != "" {
			f.Val = val
		}
		if r.P(0.6) {
			// mappings with a suffix and remaps exercise the shared registry from the last stage
			f.Mappings = append(f.Mappings, Mapping{Level: r.Range(1, 2), HasSuffix: true, Suffix: r.Range(1, 2), Regex: ""})
		}
		if r.P(0.3) {
			f.Remap = []string{"."}
		}
		c.Args = append(f.Args(), "--color=false")
	case 4:
		c.Cmd = "transcode"
		c.Args = []string{"-v", comOr(c.J, "CHF")}
	case 5:
		c.Cmd = "portfolio returns"
		c.Args = []string{"-v", comOr(c.J, "CHF"), "--months", "--to", "2029-01-01"}
	case 6:
		c.Cmd = "portfolio weights"
		c.Args = []string{"-v", comOr(c.J, "CHF"), "--months", "--to", "2029-01-01"}
	case 7:
		c.Cmd = "register"
		c.Args = []string{"--to", "2029-01-01"}
		if val != "" {
			c.Args = append(c.Args, "-v", val)
		}
	}
	c.N = r.Intn(1<<30) | 1
	if r.P(0.15) {
		c.Note = "broken" // several files end in a malformed directive: the error paths run concurrently
	}
	return c
}

var raceFrameRx = regexp.MustCompile(`(?m)^\s+(github\.com/sboehler/knut/[^\s(]+)`)

func runRace(bin, dir string, argv []string, seed uint64, procs int) (string, string, int, error) {
	cmd := exec.Command(bin, argv...)
	cmd.Dir = dir
	cmd.Env = append(os.Environ(), fmt.Sprintf("SIM_PERTURB_SEED=%d", seed), "SIM_MAP_MODE=3", fmt.Sprintf("GOMAXPROCS=%d", procs), "GORACE=halt_on_error=1 exitcode=66 atexit_sleep_ms=0")
	var so, se bytes.Buffer
	cmd.Stdout, cmd.Stderr = &so, &se
	done := make(chan error, 1)
	if err := cmd.Start(); err != nil {
		return "", "", 0, err
	}
	go func() { done <- cmd.Wait() }()
	select {
	case err := <-done:
		code := 0
		if ee, ok := err.(*exec.ExitError); ok {
			code = ee.ExitCode()
		} else if err != nil {
			return "", "", 0, err
		}
		return so.String(), se.String(), code, nil
	case <-time.After(60 * time.Second):
		_ = cmd.Process.Kill()
		return so.String(), se.String(), -1, nil
	}
}

func evalRace(c *Case) (*Violation, bool) {
	bin := os.Getenv("KNUT_RACE")
	if bin == "" {
		panic(InfraError{"KNUT_RACE is not set"})
	}
	if _, err := os.Stat(bin); err != nil {
		panic(InfraError{"engine R binary missing: " + err.Error()})
	}
	dir, err := os.MkdirTemp("/dev/shm", "knutrace-")
	if err != nil {
		dir, err = os.MkdirTemp("", "knutrace-")
		if err != nil {
			panic(InfraError{err.Error()})
		}
	}
	defer os.RemoveAll(dir)
	files := c.L.Files(c.J)
	if c.Note == "broken" {
		for name := range files {
			files[name] += "\n2020-13-45 open Assets:Oops\n"
		}
	}
	for name, txt := range files {
		p := filepath.Join(dir, name)
		_ = os.MkdirAll(filepath.Dir(p), 0o755)
		if err := os.WriteFile(p, []byte(txt), 0o644); err != nil {
			panic(InfraError{err.Error()})
		}
	}
	argv := c.argv(filepath.Join(dir, c.L.Main()))
	if c.Cmd == "infer" {
		for name, txt := range c.Files {
			if err := os.WriteFile(filepath.Join(dir, name), []byte(txt), 0o644); err != nil {
				panic(InfraError{err.Error()})
			}
		}
		argv = []string{"infer", "-t", filepath.Join(dir, c.L.Main()), filepath.Join(dir, "target.knut")}
	}
	for i, procs := range []int{4, 16, 1} {
		seed := uint64(c.N) + uint64(i)*7919
		_, se, code, err := runRace(bin, dir, argv, seed, procs)
		if err != nil {
			panic(InfraError{"engine R: " + err.Error()})
		}
		Extra["race_runs"]++
		if code == -1 {
			return &Violation{Signature: "race-binary-hangs", Msg: "the race-instrumented binary did not finish within 60 s", Detail: strings.Join(argv, " ")}, false
		}
		if strings.Contains(se, "WARNING: DATA RACE") {
			// must reproduce on the same workload and seed
			_, se2, _, _ := runRace(bin, dir, argv, seed, procs)
			if !strings.Contains(se2, "WARNING: DATA RACE") {
				_, se2, _, _ = runRace(bin, dir, argv, seed, procs)
			}
			if !strings.Contains(se2, "WARNING: DATA RACE") {
				Extra["race_not_reproduced"]++
				continue
			}
			fr := raceFrameRx.FindAllStringSubmatch(se, 4)
			sig := "data-race"
			if len(fr) > 0 {
				f := fr[0][1]
				f = f[strings.LastIndexByte(f, '/')+1:]
				sig += ":" + f
			}
			if len(se) > 6000 {
				se = se[:6000]
			}
			return &Violation{Signature: sig, Msg: fmt.Sprintf("the race detector reports a data race (GOMAXPROCS=%d, perturbation seed %d); reproduced on a second run", procs, seed), Detail: strings.ReplaceAll(se, dir, "")}, false
		}
		if strings.Contains(se, "panic:") || strings.Contains(se, "fatal error:") {
			return &Violation{Signature: "race-binary-crash", Msg: "the race-instrumented binary crashed", Detail: se}, false
		}
	}
	return nil, false
}
