package harness

import (
	"fmt"
	"os"
	"testing"
)

func TestSmoke(t *testing.T) {
	theT = t
	ex, err := os.ReadFile("/repo/doc/example.knut")
	if err != nil {
		t.Skip(err)
	}
	files := map[string]string{"/w/main.knut": "include \"a/ex.knut\"\ninclude \"b.knut\"\n", "/w/a/ex.knut": string(ex), "/w/b.knut": "2020-01-01 open Assets:Foo\n\n"}
	ents, _ := os.ReadDir("/repo/doc")
	for _, e := range ents {
		if len(e.Name()) > 7 && e.Name()[len(e.Name())-7:] == ".prices" {
			b, _ := os.ReadFile("/repo/doc/" + e.Name())
			files["/w/a/"+e.Name()] = string(b)
		}
	}
	outs := map[string]int{}
	hashes := map[uint64]int{}
	for seed := uint64(0); seed < 50; seed++ {
		sp := &Spec{Files: files, Argv: []string{"balance", "--color=false", "-v", "CHF", "--months", "--from", "2021-01-01", "--to", "2021-12-31", "/w/main.knut"}, Today: "2022-03-04",
			Sched: Sched{Seed: seed, MapSeed: seed, MapMode: int(seed % 5), Bias: int(seed % 4)}}
		o := Run(sp)
		if seed < 2 {
			fmt.Printf("seed %d outcome=%s exit=%d steps=%d tasks=%d wall=%dus bubble=%q\nstderr=%s\n%s\n", seed, o.Outcome, o.ExitCode, o.Steps, o.Tasks, o.WallNs/1000, o.BubbleX, o.Stderr, o.Stdout)
		}
		outs[o.Stdout]++
		hashes[o.EventHash]++
		// replay must be identical
		sp2 := *sp
		o2 := Run(&sp2)
		if o2.EventHash != o.EventHash || o2.Stdout != o.Stdout {
			t.Fatalf("seed %d not deterministic", seed)
		}
		sp3 := *sp
		sp3.Sched.Tape = o.Tape
		o3 := Run(&sp3)
		if o3.EventHash != o.EventHash || o3.Stdout != o.Stdout {
			t.Fatalf("seed %d tape replay differs", seed)
		}
	}
	fmt.Println("distinct outputs", len(outs), "distinct schedules", len(hashes), Ctr.Outcomes, Ctr.Probes)
}
