package harness

import (
	"sort"

	"github.com/shopspring/decimal"
)

// PriceDecl is one price declaration: 1 Com = Price Target.
type PriceDecl struct {
	Day    Day
	Com    string
	Target string
	Price  decimal.Decimal
}

// RefPrices derives prices by the rule C12 states: the latest declaration per
// pair (either direction) on or before the day; the reciprocal, truncated to 8
// decimals, the other way round; along a chain the product, truncated to 8
// decimals per step starting from the valuation commodity.
type RefPrices struct {
	Decls []PriceDecl
}

func NewRefPrices(j *Journal) *RefPrices {
	rp := &RefPrices{}
	for _, d := range j.Dirs {
		if d.Kind == "price" {
			rp.Decls = append(rp.Decls, PriceDecl{Day: d.Date, Com: d.Com, Target: d.Target, Price: d.PriceDec()})
		}
	}
	sort.SliceStable(rp.Decls, func(a, b int) bool { return rp.Decls[a].Day < rp.Decls[b].Day })
	return rp
}

type edgeKey struct{ from, to string } // price of `to` expressed in `from`

// edges returns, as of the end of day, ps[from][to] = price of `to` in `from`.
func (rp *RefPrices) edges(day Day) map[edgeKey]decimal.Decimal {
	e := map[edgeKey]decimal.Decimal{}
	one := decimal.NewFromInt(1)
	for _, d := range rp.Decls {
		if d.Day > day {
			break
		}
		if d.Price.IsZero() {
			continue
		}
		e[edgeKey{d.Target, d.Com}] = d.Price
		e[edgeKey{d.Com, d.Target}] = one.Div(d.Price).Truncate(8)
	}
	return e
}

// Normalized returns, per commodity, every value a derivation from v may
// yield on the given day (one per simple path). A commodity that is absent has
// no price.
func (rp *RefPrices) Normalized(day Day, v string) map[string][]decimal.Decimal {
	e := rp.edges(day)
	adj := map[string][]string{}
	for k := range e {
		adj[k.from] = append(adj[k.from], k.to)
	}
	for k := range adj {
		sort.Strings(adj[k])
	}
	res := map[string][]decimal.Decimal{v: {decimal.NewFromInt(1)}}
	onPath := map[string]bool{v: true}
	var dfs func(c string, val decimal.Decimal, depth int)
	dfs = func(c string, val decimal.Decimal, depth int) {
		if depth > 8 {
			return
		}
		for _, n := range adj[c] {
			if onPath[n] {
				continue
			}
			nv := e[edgeKey{c, n}].Mul(val).Truncate(8)
			dup := false
			for _, x := range res[n] {
				if x.Equal(nv) {
					dup = true
				}
			}
			if !dup {
				res[n] = append(res[n], nv)
			}
			onPath[n] = true
			dfs(n, nv, depth+1)
			onPath[n] = false
		}
	}
	dfs(v, decimal.NewFromInt(1), 0)
	return res
}

// Direct returns the value C12 prescribes when the pair (c, v) is declared
// directly (either way) on or before the day.
func (rp *RefPrices) Direct(day Day, c, v string) (decimal.Decimal, bool) {
	e := rp.edges(day)
	p, ok := e[edgeKey{v, c}]
	return p.Truncate(8), ok // one step from v: truncated like every step (matters for quotes with more than 8 decimals)
}
