package harness

import (
	"fmt"
	"sort"
	"strings"

	"knutsim/simrt"

	"github.com/shopspring/decimal"
)

// C19 (engine S part): under every interleaving of the loader and pipeline
// goroutines: no deadlock or hang (a), nothing lost or duplicated (b), and a
// failing stage stops everything and its error is what the command reports (c).
// Sub-checks (d) data races and (e) registry linearizability live in c19r.go / c19e.go.
type c19 struct{}

func init() { Register(c19{}) }

func (c19) ID() string { return "C19" }

func normNum(s string) string {
	d, err := decimal.NewFromString(s)
	if err != nil {
		return "?" + s
	}
	return d.String()
}

// census renders what a journal's directives should look like after loading,
// one canonical string per model directive.
func census(j *Journal) ([]string, bool) {
	var out []string
	exact := true
	for i := range j.Dirs {
		d := &j.Dirs[i]
		switch d.Kind {
		case "open", "close":
			out = append(out, fmt.Sprintf("%s %s %s", d.Date, d.Kind, d.Account))
		case "price":
			out = append(out, fmt.Sprintf("%s price %s %s %s", d.Date, d.Com, d.PriceDec().String(), d.Target))
		case "assert":
			var bs []string
			for _, b := range d.Balances {
				bs = append(bs, fmt.Sprintf("%s %s %s", b.Account, b.Qty.String(), b.Com))
			}
			out = append(out, fmt.Sprintf("%s assert %s", d.Date, strings.Join(bs, "; ")))
		case "txn":
			perf := ""
			if d.HasPerf {
				perf = "@performance(" + strings.Join(d.Perf, ",") + ") "
			}
			if d.Accrual == nil {
				var bs []string
				for _, b := range d.Bookings {
					bs = append(bs, canonBooking(b.Credit, b.Debit, b.Qty, b.Com))
				}
				out = append(out, fmt.Sprintf("%s%s txn %q %s", perf, d.Date, d.Desc, strings.Join(bs, "; ")))
				continue
			}
			// accrual: one transaction per generated posting pair
			ps := d.Expand(i)
			for k := 0; k+1 < len(ps); k += 2 {
				if ps[k].Inexact {
					exact = false
				}
				out = append(out, fmt.Sprintf("%s%s txn %q %s", perf, ps[k].Date, ps[k].Desc, canonBooking(ps[k].Account, ps[k+1].Account, ps[k+1].Qty, ps[k].Com)))
			}
		}
	}
	sort.Strings(out)
	return out, exact
}

func canonBooking(credit, debit string, q Q, com string) string {
	if q < 0 {
		credit, debit, q = debit, credit, -q
	}
	return fmt.Sprintf("%s %s %s %s", credit, debit, q.String(), com)
}

func censusOfPrinted(ds []PDir) ([]string, error) {
	var out []string
	for _, d := range ds {
		perf := ""
		for _, a := range d.Addons {
			perf += a + " "
		}
		f := strings.Fields(d.Head)
		switch d.Kind {
		case "open", "close":
			if len(f) != 3 {
				return nil, fmt.Errorf("bad %s: %q", d.Kind, d.Head)
			}
			out = append(out, fmt.Sprintf("%s %s %s", f[0], d.Kind, f[2]))
		case "price":
			if len(f) != 5 {
				return nil, fmt.Errorf("bad price: %q", d.Head)
			}
			out = append(out, fmt.Sprintf("%s price %s %s %s", f[0], f[2], normNum(f[3]), f[4]))
		case "assert":
			var bs []string
			if len(f) == 5 {
				bs = append(bs, fmt.Sprintf("%s %s %s", f[2], normNum(f[3]), f[4]))
			}
			for _, l := range d.Body {
				g := strings.Fields(l)
				if len(g) != 3 {
					return nil, fmt.Errorf("bad balance line: %q", l)
				}
				bs = append(bs, fmt.Sprintf("%s %s %s", g[0], normNum(g[1]), g[2]))
			}
			out = append(out, fmt.Sprintf("%s assert %s", f[0], strings.Join(bs, "; ")))
		case "txn":
			head := d.Head
			q1 := strings.IndexByte(head, '"')
			q2 := strings.LastIndexByte(head, '"')
			if q1 < 0 || q2 <= q1 {
				return nil, fmt.Errorf("bad transaction head: %q", head)
			}
			desc := head[q1+1 : q2]
			var bs []string
			for _, l := range d.Body {
				g := strings.Fields(l)
				if len(g) != 4 {
					return nil, fmt.Errorf("bad booking line: %q", l)
				}
				bs = append(bs, fmt.Sprintf("%s %s %s %s", g[0], g[1], normNum(g[2]), g[3]))
			}
			out = append(out, fmt.Sprintf("%s%s txn %q %s", perf, f[0], desc, strings.Join(bs, "; ")))
		}
	}
	sort.Strings(out)
	return out, nil
}

func (c19) Gen(r *simrt.Rand, idx int, tier string) *Case {
	g := DefaultGen()
	g.MaxTxn = 16
	g.MaxSpan = 300
	c := &Case{Gen: &g, Today: "2030-01-01"}
	subs := []string{"census", "pipeline", "fail-assert", "fail-price", "fail-include", "fail-syntax", "pipeline", "registry"}
	c.Sub = subs[idx%len(subs)]
	if c.Sub == "registry" {
		return genRegistryCase(r, c)
	}
	if idx%8 == 6 {
		return genRaceCase(r, c, tier)
	}
	switch c.Sub {
	case "pipeline", "fail-price":
		g.Prices = "tree"
		g.MaxCom = 4
		if c.Sub == "fail-price" {
			g.PriceGap = true
		}
	}
	if c.Sub == "census" && idx%16 == 0 {
		// a large journal: hundreds of directives spread over many files
		c.Sub = "census-large"
		g.MaxTxn = 700
		g.MaxSpan = 700
		g.PAssert = 0.02
		g.PAccrual = 0
		for try := 0; try < 8; try++ {
			c.J = Gen(r, g)
			if len(c.J.Dirs) >= 520 {
				break
			}
		}
		c.L = RandLayout(r, c.J, 9)
		for len(c.L.Names) < 5 {
			c.L = RandLayout(r, c.J, 9)
		}
		c.Cmd = "print"
		for i := 0; i < 4; i++ {
			c.Scheds = append(c.Scheds, RandSched(r))
		}
		return c
	}
	c.J = Gen(r, g)
	c.L = RandLayout(r, c.J, 9)
	if len(c.L.Names) < 3 {
		c.L = RandLayout(r, c.J, 9)
	}
	if idx%5 == 4 {
		c.L = WideLayout(r, c.J)
	}
	switch c.Sub {
	case "census":
		c.Cmd = "print"
	case "pipeline":
		cs := c.J.Commodities()
		if len(cs) == 0 {
			cs = []string{"CHF"}
		}
		val := ""
		if len(cs) > 1 {
			val = cs[r.Intn(len(cs))]
		}
		switch r.Intn(6) {
		case 0, 1, 2:
			c.Cmd = "balance"
			f := GenBalFlags(r, c.J, FlagOpts{Valued: val != "" && r.P(0.7), AlwaysTo: true})
			if f.Val != "" {
				f.Val = val
			}
			c.Args = append(f.Args(), "--color=false")
		case 3:
			c.Cmd = "transcode"
			c.Args = []string{"-v", cs[0]}
		case 4:
			c.Cmd = "portfolio returns"
			c.Args = []string{"-v", cs[0], "--months", "--to", "2029-01-01"}
		case 5:
			c.Cmd = "register"
			c.Args = []string{"--to", "2029-01-01"}
			if val != "" {
				c.Args = append(c.Args, "-v", val)
			}
		}
	case "fail-assert":
		c.Cmd = "check"
		for try := 0; try < 20 && RefCheck(c.J).OK; try++ {
			mutate(r, c.J)
		}
		c.L = RandLayout(r, c.J, 9)
		if r.P(0.5) {
			c.Cmd = "balance"
			c.Args = []string{"--color=false", "--months", "--to", "2029-01-01"}
		}
	case "fail-price":
		c.Cmd = "balance"
		cs := c.J.Commodities()
		if len(cs) == 0 {
			cs = []string{"CHF"}
		}
		c.Args = []string{"--color=false", "-v", cs[0], "--to", "2029-01-01"}
	case "fail-include":
		c.Cmd = []string{"check", "print", "balance"}[r.Intn(3)]
		c.N = r.Intn(1 << 20) // which file is removed
	case "fail-syntax":
		c.Cmd = []string{"check", "print", "balance"}[r.Intn(3)]
		c.N = r.Intn(1 << 20)
		if r.P(0.4) {
			// two stages fail in one run: one file parses but cannot be converted into the
			// model, another one has a syntax error at its very end
			c.Sub = "fail-double"
		}
	}
	n := 6
	if tier == "thorough" {
		n = 12
	}
	for i := 0; i < n; i++ {
		c.Scheds = append(c.Scheds, RandSched(r))
	}
	return c
}

var garbage = []string{"2020-13-45 open Assets:Oops\n", "foo bar\n", "2020-01-01 \"unterminated\nAssets:A Assets:B 1\n", "2020-01-01 open assets:lower\n", "2020-01-01 price CHF x USD\n", "include \"\n"}

// what a genuine diagnostic for garbage[i] may mention besides the file path
var garbageMarks = [][]string{{"2020-13-45", "month out of range", "parsing date"}, nil, nil, {"assets"}, nil, nil}

func (c19) Eval(c *Case) (*Violation, bool) {
	switch c.Sub {
	case "registry":
		return evalRegistry(c)
	case "race":
		return evalRace(c)
	}
	files := c.L.Files(c.J)
	main := c.L.Main()
	wantFail := ""
	var wantAlt []string
	names := make([]string, 0, len(files))
	for n := range files {
		names = append(names, n)
	}
	sort.Strings(names)
	switch c.Sub {
	case "fail-include":
		// remove one non-root file
		var cands []string
		for _, n := range names {
			if n != main {
				cands = append(cands, n)
			}
		}
		if len(cands) == 0 {
			return nil, true
		}
		victim := cands[c.N%len(cands)]
		files = copyFiles(files)
		delete(files, victim)
		wantFail = victim[strings.LastIndexByte(victim, '/')+1:]
	case "fail-syntax":
		victim := names[c.N%len(names)]
		files = copyFiles(files)
		g := garbage[(c.N/7)%len(garbage)]
		if (c.N/3)%2 == 0 {
			files[victim] = files[victim] + "\n" + g
		} else {
			files[victim] = g + "\n" + files[victim]
		}
		wantFail = victim
		wantAlt = garbageMarks[(c.N/7)%len(garbage)]
	}
	if c.Sub == "fail-double" {
		files = copyFiles(files)
		v1 := names[c.N%len(names)]
		v2 := names[(c.N/5)%len(names)]
		if v1 == v2 {
			v2 = main
		}
		files[v1] = []string{"2020-01-01 open assets:lower\n", "2020-01-01 open Asset:Savings\n", "2020-01-01 \"x\"\nAssets:A $what 1 CHF\n"}[(c.N/11)%3] + "\n" + files[v1]
		files[v2] = files[v2] + "\n" + []string{"foo bar\n", "2020-13-45 open Assets:Oops\n", "include \"\n"}[(c.N/13)%3]
	}
	ref := RefCheck(c.J)
	var expCensus []string
	exact := true
	if c.Sub == "census-large" {
		c.Sub = "census"
		defer func() { c.Sub = "census-large" }()
	}
	if c.Sub == "census" {
		expCensus, exact = census(c.J)
	}
	argv := c.argv(main)
	var firstOK *bool
	for i, s := range c.Scheds {
		sp := c.specFor(s, files, argv)
		o := Run(sp)
		switch o.Outcome {
		case simrt.OutDeadlock:
			return &Violation{Signature: "deadlock", Msg: fmt.Sprintf("run %d: all goroutines blocked, command unfinished", i)}, false
		case simrt.OutBudget:
			if o.Budget == "steps" {
				Extra["inconclusive_step_budget"]++
				continue
			}
			return &Violation{Signature: "hang", Msg: fmt.Sprintf("run %d: tasks are created without end (%d tasks after %d steps)", i, o.Tasks, o.Steps)}, false
		case simrt.OutPanic:
			return &Violation{Signature: "panic", Msg: fmt.Sprintf("run %d: panic: %s", i, o.PanicValue), Detail: o.PanicStack}, false
		}
		if o.Leaked > 0 {
			Extra["leaked_tasks_after_run"]++
		}
		ok := o.OK()
		if firstOK == nil {
			firstOK = &ok
		} else if *firstOK != ok {
			return &Violation{Signature: "status-depends-on-schedule", Msg: fmt.Sprintf("run 0 ok=%v, run %d ok=%v", *firstOK, i, ok), Detail: o.Stderr}, false
		}
		switch c.Sub {
		case "census":
			if !ok {
				return &Violation{Signature: "accepted-journal-fails", Msg: "print fails on a well-formed journal", Detail: o.Stderr}, false
			}
			ds, err := ParseKnut(o.Stdout)
			if err != nil {
				return &Violation{Signature: "print-unreadable", Msg: err.Error(), Detail: o.Stdout}, false
			}
			got, err := censusOfPrinted(ds)
			if err != nil {
				return &Violation{Signature: "print-unreadable", Msg: err.Error(), Detail: o.Stdout}, false
			}
			if exact {
				if d := multisetDiff(expCensus, got); d != "" {
					return &Violation{Signature: "directive-lost-or-duplicated", Msg: fmt.Sprintf("run %d: loaded journal is not the union of the files' directives", i), Detail: d}, false
				}
			} else if len(got) != len(expCensus) {
				return &Violation{Signature: "directive-lost-or-duplicated", Msg: fmt.Sprintf("run %d: %d directives loaded, %d expected", i, len(got), len(expCensus))}, false
			}
		case "pipeline":
			// success or clean failure, identical status under all schedules (checked above)
		case "fail-assert", "fail-price", "fail-include", "fail-syntax", "fail-double":
			if c.Sub == "fail-assert" && ref.OK {
				return nil, true
			}
			if ok {
				if c.Sub == "fail-price" {
					// the gap may not be needed (no position in that commodity before its first price)
					return nil, true
				}
				return &Violation{Signature: "failure-reported-as-success", Msg: fmt.Sprintf("run %d: %s succeeds although a stage must fail (%s)", i, c.Cmd, c.Sub)}, false
			}
			msg := strings.TrimSpace(o.Stderr)
			if msg == "" {
				return &Violation{Signature: "no-diagnostic", Msg: fmt.Sprintf("run %d: failure without a diagnostic", i)}, false
			}
			if isCancelOnly(msg) {
				return &Violation{Signature: "reports-cancellation-not-cause", Msg: fmt.Sprintf("run %d: the command reports only the cancellation, not the failing stage's error", i), Detail: o.Stderr}, false
			}
			altOK := false
			for _, a := range wantAlt {
				if strings.Contains(msg, a) {
					altOK = true
				}
			}
			if wantFail != "" && !strings.Contains(msg, wantFail) && !altOK {
				return &Violation{Signature: "reports-other-error", Msg: fmt.Sprintf("run %d: the diagnostic does not mention %s", i, wantFail), Detail: o.Stderr}, false
			}
			if c.Sub == "fail-price" && !strings.Contains(msg, "price") {
				return &Violation{Signature: "reports-other-error", Msg: "the diagnostic is not about the missing price", Detail: o.Stderr}, false
			}
			if c.Cmd != "check" && o.Stdout != "" {
				return &Violation{Signature: "stdout-on-failure", Msg: "a failing report command wrote to standard output", Detail: o.Stdout}, false
			}
		}
	}
	return nil, false
}

func isCancelOnly(msg string) bool {
	m := strings.TrimSpace(msg)
	return m == "context canceled" || m == "context deadline exceeded"
}

func copyFiles(m map[string]string) map[string]string {
	c := make(map[string]string, len(m))
	for k, v := range m {
		c[k] = v
	}
	return c
}

func multisetDiff(want, got []string) string {
	cnt := map[string]int{}
	for _, w := range want {
		cnt[w]++
	}
	for _, g := range got {
		cnt[g]--
	}
	var b strings.Builder
	keys := make([]string, 0, len(cnt))
	for k := range cnt {
		keys = append(keys, k)
	}
	sort.Strings(keys)
	for _, k := range keys {
		switch {
		case cnt[k] > 0:
			fmt.Fprintf(&b, "missing x%d: %s\n", cnt[k], k)
		case cnt[k] < 0:
			fmt.Fprintf(&b, "extra x%d: %s\n", -cnt[k], k)
		}
	}
	return b.String()
}
