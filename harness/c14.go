package harness

import (
	"fmt"
	"sort"
	"strings"

	"knutsim/simrt"
)

// C14: commands fail cleanly on every input: they terminate within the step
// and task budgets, end with exit 0 or a non-zero exit plus a diagnostic, never
// panic or deadlock; an error in any included file fails the whole command and a
// failing report command leaves stdout empty. Read faults are enumerated per
// workload (every read operation x every fault kind).
type c14 struct{}

func init() { Register(c14{}) }

func (c14) ID() string { return "C14" }

var reportCmds = map[string]bool{"balance": true, "print": true, "transcode": true, "infer": true, "check --write": true}

// report commands the statement does not list by name; their stdout on failure
// is not judged by C14 (portfolio, register)

type cmdShape struct {
	name  string
	args  func(r *simrt.Rand, j *Journal) []string
	multi bool // takes several files
}

func comOr(j *Journal, def string) string {
	if cs := j.Commodities(); len(cs) > 0 {
		return cs[0]
	}
	return def
}

func c14Cmd(r *simrt.Rand, j *Journal) (string, []string) {
	switch r.Intn(10) {
	case 8:
		// training on the target itself (the documented use): its include tree is loaded for training
		return "infer", []string{"-t", "@MAIN"}
	case 0:
		return "check", nil
	case 1:
		return "check", []string{"--write"}
	case 2:
		f := GenBalFlags(r, j, FlagOpts{AlwaysTo: true})
		return "balance", append(f.Args(), "--color=false")
	case 3:
		f := GenBalFlags(r, j, FlagOpts{AlwaysTo: true, Valued: true})
		return "balance", append(f.Args(), "--color=false")
	case 4:
		return "print", nil
	case 5:
		return "transcode", []string{"-v", comOr(j, "CHF")}
	case 6:
		return "portfolio returns", []string{"-v", comOr(j, "CHF"), "--months", "--to", "2029-01-01"}
	case 7:
		return "portfolio weights", []string{"-v", comOr(j, "CHF"), "--months", "--to", "2029-01-01", "--csv"}
	}
	return "format", nil
}

func (c14) Gen(r *simrt.Rand, idx int, tier string) *Case {
	g := DefaultGen()
	g.MaxTxn = 12
	g.MaxSpan = 200
	g.Prices = "tree"
	c := &Case{Gen: &g, Today: "2030-01-01"}
	subs := []string{"readfault", "include-graph", "flags", "soup", "edge", "readfault", "infer-fault", "late-failure"}
	c.Sub = subs[idx%len(subs)]
	if c.Sub == "late-failure" {
		// a long journal whose only defect comes at the very end: everything a
		// streaming implementation could already have written is on stdout by then
		g.MaxTxn = 140
		g.MaxSpan = 600
		g.MaxAcc = 6
		g.PAssert = 0.05
		g.PClose = 0
		for try := 0; try < 10; try++ {
			c.J = Gen(r, g)
			n := 0
			for _, d := range c.J.Dirs {
				if d.Kind == "txn" {
					n++
				}
			}
			if n >= 60 {
				break
			}
		}
		_, max, _ := c.J.TxnSpan()
		accs := c.J.Accounts()
		var al string
		for _, a := range accs {
			if isAL(a) {
				al = a
			}
		}
		valued := r.P(0.5)
		switch {
		case valued:
			// a commodity without any price, booked on the last day
			c.J.Dirs = append(c.J.Dirs, Dir{Kind: "txn", Date: max + 1, Desc: "unpriced", Bookings: []Booking{{Credit: "Equity:Equity", Debit: al, Qty: 5 * QScale, Com: "NOPRICE"}}})
			c.Note = "unpriced commodity on the last day"
		default:
			c.J.Dirs = append(c.J.Dirs, Dir{Kind: "assert", Date: max + 1, Balances: []Bal{{Account: al, Qty: 123456789, Com: comOr(c.J, "CHF")}}})
			c.Note = "failing assertion on the last day"
		}
		c.L = RandLayout(r, c.J, 4)
		c.Scheds = []Sched{RandSched(r), RandSched(r)}
		v := comOr(c.J, "CHF")
		cmds := [][]string{{"transcode", "-v", v}, {"balance", "--color=false", "-v", v, "--days", "--last", "400"}, {"portfolio returns", "-v", v, "--weeks"}, {"portfolio weights", "-v", v, "--weeks", "--csv"}, {"register", "-v", v}}
		if !valued {
			cmds = append(cmds, []string{"print"}, []string{"check", "--write"}, []string{"balance", "--color=false", "--weeks"}, []string{"register"})
		}
		pick := cmds[r.Intn(len(cmds))]
		c.Cmd, c.Args = pick[0], pick[1:]
		return c
	}
	c.J = Gen(r, g)
	c.L = RandLayout(r, c.J, 6)
	c.Scheds = []Sched{RandSched(r)}
	c.N = r.Intn(1 << 24)
	switch c.Sub {
	case "readfault":
		c.Cmd, c.Args = c14Cmd(r, c.J)
	case "include-graph":
		c.Cmd, c.Args = c14Cmd(r, c.J)
		if c.Cmd == "format" {
			c.Cmd = "check"
		}
		c.Note = []string{"self", "cycle2", "cycle3", "diamond", "missing", "dir", "missing-odd"}[r.Intn(7)]
	case "flags":
		c.Note = "flag faults"
	case "soup":
		c.Cmd, c.Args = c14Cmd(r, c.J)
	case "edge":
		c.Cmd, c.Args = c14Cmd(r, c.J)
		if c.Cmd == "format" {
			c.Cmd = "print"
		}
		c.Note = []string{"accrual-inverted", "accrual-oneday", "date-0001", "accrual-0001", "date-9999", "empty", "comments-only", "huge-number", "zero-price", "deep-account", "no-final-newline", "accrual-inverted-inside-period", "accrual-inverted-inside-period"}[r.Intn(13)]
		if c.Note == "accrual-inverted-inside-period" {
			// window end before window start, both inside one period of the interval
			iv := []string{"daily", "weekly", "monthly", "quarterly", "yearly", "once"}[r.Intn(6)]
			a, b := "2023-03-20", "2023-03-"+fmt.Sprintf("%02d", r.Range(13, 19))
			switch iv {
			case "daily":
				b = "2023-03-19"
			case "quarterly", "yearly":
				b = []string{"2023-03-10", "2023-02-11", "2023-01-01"}[r.Intn(3)]
			case "monthly", "once":
				b = []string{"2023-03-10", "2023-03-01", "2023-03-19"}[r.Intn(3)]
			}
			c.Note += ":" + iv + " " + a + " " + b
		}
	case "infer-fault":
		c.Cmd = "infer"
	}
	return c
}

// cleanEnd is the common oracle.
func cleanEnd(o *Out, cmd string, args []string, mustFail bool, what string) *Violation {
	full := cmd
	if cmd == "check" && contains(args, "--write") {
		full = "check --write"
	}
	switch o.Outcome {
	case simrt.OutPanic:
		return &Violation{Signature: "panic:" + panicClass(o.PanicValue), Msg: fmt.Sprintf("%s panics (%s): %s", cmd, what, o.PanicValue), Detail: o.PanicStack}
	case simrt.OutDeadlock:
		return &Violation{Signature: "deadlock", Msg: fmt.Sprintf("%s deadlocks (%s)", cmd, what)}
	case simrt.OutBudget:
		if o.Budget == "steps" {
			// a long run is not a hang: damaged input can legitimately ask for
			// hundreds of thousands of periods (a flipped digit in an accrual year).
			// Counted as inconclusive; unbounded task creation and deadlock are what
			// this check reports as non-termination.
			Extra["inconclusive_step_budget"]++
			return nil
		}
		return &Violation{Signature: "does-not-terminate", Msg: fmt.Sprintf("%s keeps creating tasks (%s): %d tasks after %d steps", cmd, what, o.Tasks, o.Steps)}
	}
	if o.OK() {
		if mustFail {
			return &Violation{Signature: "error-swallowed", Msg: fmt.Sprintf("%s succeeds although %s", cmd, what), Detail: o.Stdout}
		}
		return nil
	}
	if strings.TrimSpace(o.Stderr) == "" {
		return &Violation{Signature: "no-diagnostic", Msg: fmt.Sprintf("%s fails without a diagnostic (%s)", cmd, what)}
	}
	if reportCmds[full] && o.Stdout != "" {
		return &Violation{Signature: "stdout-on-failure", Msg: fmt.Sprintf("%s fails (%s) but wrote to standard output", full, what), Detail: o.Stdout}
	}
	return nil
}

func panicClass(v string) string {
	switch {
	case strings.Contains(v, "division by 0") || strings.Contains(v, "divide by zero"):
		return "division-by-zero"
	case strings.Contains(v, "nil pointer"):
		return "nil-pointer"
	case strings.Contains(v, "zero time"):
		return "zero-time-partition"
	case strings.Contains(v, "index out of range") || strings.Contains(v, "slice bounds"):
		return "index-out-of-range"
	}
	return "other"
}

var readKinds = []string{"enoent", "eacces", "eisdir", "eio", "trunc", "flip"}

func (c14) Eval(c *Case) (*Violation, bool) {
	r := simrt.NewRand(uint64(c.N) + 17)
	files := c.L.Files(c.J)
	main := c.L.Main()
	s := c.Scheds[0]
	names := sortedKeys(files)
	switch c.Sub {
	case "late-failure":
		for _, sc := range c.Scheds {
			o := Run(c.specFor(sc, files, c.argv(main)))
			if v := cleanEnd(o, c.Cmd, c.Args, true, c.Note); v != nil {
				v.Signature += ":late-failure"
				return v, false
			}
		}
		return nil, false
	case "readfault", "infer-fault":
		var argv []string
		if c.Sub == "infer-fault" {
			// training: the journal; target: a copy of one file with a placeholder
			tgt := "/w/target.knut"
			files = copyFiles(files)
			files[tgt] = "2020-01-01 \"" + descPool[r.Intn(len(descPool))] + "\"\nAssets:Bank Expenses:TBD 10 CHF\n"
			argv = []string{"infer", "-t", main, tgt}
		} else if c.Cmd == "format" {
			argv = append([]string{"format"}, names...)
		} else {
			argv = c.argv(main)
		}
		base := Run(c.specFor(s, files, argv))
		if v := cleanEnd(base, c.Cmd, c.Args, false, "no fault"); v != nil {
			return v, false
		}
		if !base.OK() {
			noteVacuous(c.Sub, base)
		}
		n := 0
		for _, op := range base.Trace {
			if op.Op != "readfile" && op.Op != "open" && op.Op != "read" {
				continue
			}
			if _, isInput := files[op.Path]; !isInput {
				// only reads of the input files: opening a directory to fsync it
				// best-effort, or a temp file, is not "an included file"
				continue
			}
			for _, k := range readKinds {
				if op.Op == "read" && k != "eio" {
					continue
				}
				flt := simrt.Fault{Kind: k, Arg: r.Intn(1 << 16)}
				sp := c.specFor(s, files, argv)
				sp.Faults = map[int]simrt.Fault{op.N: flt}
				o := Run(sp)
				n++
				mustFail := k != "trunc" && k != "flip" && base.OK()
				if o.Fired[op.Op+":"+k] == 0 {
					// the schedule placed another operation at this index: not exercised
					Extra["fault_not_fired"]++
					continue
				}
				if v := cleanEnd(o, c.Cmd, c.Args, mustFail, fmt.Sprintf("%s on %s of %s", k, op.Op, op.Path)); v != nil {
					v.Detail = fmt.Sprintf("fault %+v at op %d (%s %s)\n%s\nstderr: %s", flt, op.N, op.Op, op.Path, v.Detail, o.Stderr)
					c.Faults = sp.Faults
					return v, false
				}
			}
		}
		Extra["read_faults_enumerated"] += n
		if c.Sub == "infer-fault" && base.OK() {
			// an included file of the training journal is missing: the error is in the input itself, so
			// the run does not depend on an operation index and can be repeated under other schedules
			var incl []string
			for _, nm := range names {
				if nm != main {
					incl = append(incl, nm)
				}
			}
			if len(incl) > 0 {
				gone := incl[r.Intn(len(incl))]
				fm := copyFiles(files)
				delete(fm, gone)
				for k := 0; k < 6; k++ {
					o := Run(c.specFor(RandSched(r), fm, argv))
					if v := cleanEnd(o, c.Cmd, c.Args, true, "training journal includes the missing file "+gone); v != nil {
						v.Signature += ":missing-include"
						c.Files = fm
						return v, false
					}
				}
				Extra["infer_missing_include_runs"] += 6
			}
		}
		if c.Tier == "thorough" {
			// drawn pairs of faults on two different read operations
			var reads []simrt.FsOp
			for _, op := range base.Trace {
				if op.Op == "readfile" || op.Op == "open" {
					reads = append(reads, op)
				}
			}
			for k := 0; k < 12 && len(reads) >= 2; k++ {
				a, b := reads[r.Intn(len(reads))], reads[r.Intn(len(reads))]
				if a.N == b.N {
					continue
				}
				ka, kb := readKinds[r.Intn(len(readKinds))], readKinds[r.Intn(len(readKinds))]
				sp := c.specFor(s, files, argv)
				sp.Faults = map[int]simrt.Fault{a.N: {Kind: ka, Arg: r.Intn(1 << 16)}, b.N: {Kind: kb, Arg: r.Intn(1 << 16)}}
				o := Run(sp)
				hard := (ka != "trunc" && ka != "flip" && o.Fired[a.Op+":"+ka] > 0) || (kb != "trunc" && kb != "flip" && o.Fired[b.Op+":"+kb] > 0)
				if v := cleanEnd(o, c.Cmd, c.Args, hard && base.OK(), fmt.Sprintf("%s on %s and %s on %s", ka, a.Path, kb, b.Path)); v != nil {
					v.Signature += ":pair"
					c.Faults = sp.Faults
					return v, false
				}
				Extra["read_fault_pairs"]++
			}
		}
		return nil, n == 0
	case "include-graph":
		files = copyFiles(files)
		inc := func(from, to string) {
			files[from] = "include \"" + relPath(dirOf(from), to) + "\"\n" + files[from]
		}
		must := true
		what := c.Note
		switch c.Note {
		case "self":
			v := names[c.N%len(names)]
			inc(v, v)
		case "cycle2":
			a, b := names[c.N%len(names)], main
			if a == b {
				files["/w/x.knut"] = ""
				a = "/w/x.knut"
			}
			inc(a, b)
			inc(b, a)
		case "cycle3":
			files["/w/c1.knut"] = "include \"c2.knut\"\n"
			files["/w/c2.knut"] = "include \"c3.knut\"\n"
			files["/w/c3.knut"] = "include \"c1.knut\"\n"
			inc(main, "/w/c1.knut")
		case "diamond":
			files["/w/d1.knut"] = "include \"d3.knut\"\n"
			files["/w/d2.knut"] = "include \"d3.knut\"\n"
			files["/w/d3.knut"] = "2019-01-01 price CHF 1 CHF\n"
			inc(main, "/w/d1.knut")
			inc(main, "/w/d2.knut")
			must = false
		case "missing":
			inc(names[c.N%len(names)], "/w/not/there.knut")
		case "dir":
			inc(names[c.N%len(names)], "/w")
		case "missing-odd":
			// the journal named by a relative path, and a missing include whose name
			// looks like something else (a flag, the stdin convention, a home directory)
			rel := map[string]string{}
			for k, v := range files {
				rel[strings.TrimPrefix(k, "/w/")] = v
			}
			files = rel
			main = strings.TrimPrefix(main, "/w/")
			odd := []string{"-", "--", "~", "-h", "~/x.knut", "%s", "*", "nul"}[c.N%8]
			files[main] = "include \"" + odd + "\"\n" + files[main]
			what = "missing include named " + odd
			if c.N%3 == 0 {
				main = "./" + main
			}
		}
		for i := 0; i < 2; i++ {
			sp := c.specFor(s, files, c.argv(main))
			if i == 1 {
				sp.Sched = RandSched(r)
			}
			sp.MaxTasks = 400 // unbounded spawning is what a cycle looks like; steps keep the default budget
			o := Run(sp)
			if v := cleanEnd(o, c.Cmd, c.Args, must, "include graph: "+what); v != nil {
				v.Signature += ":include-" + c.Note
				return v, false
			}
		}
		return nil, false
	case "flags":
		variants := [][]string{
			{"transcode", main},
			{"portfolio", "returns", main},
			{"portfolio", "weights", main},
			{"portfolio", "returns", "-v", comOr(c.J, "CHF"), main},
			{"balance", "--color=false", "--from", "2030-01-01", "--to", "2000-01-01", main},
			{"balance", "--color=false", "--from", "2030-01-01", "--to", "2000-01-01", "--months", main},
			{"balance", "--color=false", "--last", "-3", "--months", main},
			{"balance", "--color=false", "--last", "0", "--days", "--to", "2021-01-01", main},
			{"balance", "--color=false", "-v", "NOPE", main},
			{"balance", "--color=false", "-v", "", main},
			{"balance", "--color=false", "-m", "0", main},
			{"balance", "--color=false", "-m", "9:9,.", main},
			{"balance", "--color=false", "-m", "-1,.", main},
			{"balance", "--color=false", "-m", "1:-1,.", main},
			{"balance", "--color=false", "-m", "-2:-3", main},
			{"balance", "--color=false", "--digits", "40", main},
			{"balance", "--color=false", "--digits", "2147483647", main},
			{"portfolio", "weights", "-v", comOr(c.J, "CHF"), "--digits", "2147483647", main},
			{"register", "--digits", "2147483647", main},
			{"balance", "--color=false", "--digits", "-100000000", main},
			{"balance", "--color=false", "--digits", "-2147483648", main},
			{"portfolio", "weights", "-v", comOr(c.J, "CHF"), "-m", "-1,.", main},
			{"portfolio", "weights", "-v", comOr(c.J, "CHF"), "-m", "1:-1,.", main},
			{"balance", "--color=false", "--digits", "-1", main},
			{"balance", "--color=false", "--account", "NoSuchAccount", main},
			{"balance", "--color=false", "--from", "0001-01-01", main},
			{"balance", "--color=false", "--to", "0001-01-01", main},
			{"portfolio", "weights", "-v", comOr(c.J, "CHF"), "--universe", "/w/none.yaml", main},
			{"portfolio", "weights", "-v", comOr(c.J, "CHF"), "--universe", main, main},
			{"infer", "-t", main, main},
			{"infer", "-t", "/w/none.knut", main},
			{"infer", "-t", main, "/w/none.knut"},
			{"format", "/w/none.knut", main},
			{"format"},
			{"check", "--write", "--no-check", main},
			{"print", "/w"},
			{"register", main},
			{"register", "-v", comOr(c.J, "CHF"), "--months", main},
		}
		// variants that must fail: the journal does not exist
		for _, av := range [][]string{
			{"balance", "--color=false", "--cpuprofile", "/w/p.prof", "/w/none.knut"},
			{"portfolio", "returns", "-v", comOr(c.J, "CHF"), "--cpuprofile", "/w/p.prof", "/w/none.knut"},
			{"register", "--cpuprofile", "/w/p.prof", "/w/none.knut"},
			{"balance", "--color=false", "--months", "-a", "/w/none.knut"},
			{"check", "/w/none.knut"},
			{"transcode", "-v", "CHF", "/w/none.knut"},
			{"portfolio", "weights", "-v", "CHF", "/w/none.knut"},
		} {
			o := Run(c.specFor(s, files, av))
			if v := cleanEnd(o, av[0], av[1:], true, "the journal file does not exist; argv "+strings.Join(av, " ")); v != nil {
				v.Signature += ":argv-" + strings.Join(av[:len(av)-1], "_")
				c.Args = av
				return v, false
			}
		}
		variants = append(variants, []string{"balance", "--color=false", "--cpuprofile", "/w/p.prof", main}, []string{"balance", "--color=false", "--cpuprofile", "/nodir/p.prof", main})
		// the largest integers a flag can carry (sums of two of them overflow)
		const maxInt = "9223372036854775807"
		variants = append(variants,
			[]string{"balance", "--color=false", "-m", maxInt + ":1,.", main},
			[]string{"balance", "--color=false", "-m", "1:" + maxInt + ",.", main},
			[]string{"balance", "--color=false", "-m", maxInt + ":" + maxInt, main},
			[]string{"balance", "--color=false", "-m", maxInt, main},
			[]string{"portfolio", "weights", "-v", comOr(c.J, "CHF"), "-m", maxInt + ":1,.", main},
			[]string{"portfolio", "weights", "-v", comOr(c.J, "CHF"), "-m", "1:" + maxInt + ",.", main},
			[]string{"balance", "--color=false", "--last", "2147483647", "--months", main},
			[]string{"portfolio", "returns", "-v", comOr(c.J, "CHF"), "--last", "2147483647", "--months", main},
		)
		// universe files of unexpected shapes: scalars that YAML does not read as strings,
		// a list or a scalar where a class is expected, nested classes, nothing, garbage
		files = copyFiles(files)
		for i, y := range []string{
			"Stocks:\n  - 7203\n  - ON\n  - ~\n  - 1.5\n",
			"- AAPL\n- USD\n",
			"Stocks: AAPL\n",
			"Stocks:\n  Tech:\n    - AAPL\n",
			"",
			"\t\tgarbage: [",
			"Stocks:\n  - [1, 2]\n  - {a: b}\n",
			"7203:\n  - AAPL\ntrue:\n  - USD\n",
			"Stocks:\n",
		} {
			name := fmt.Sprintf("/w/u%d.yaml", i)
			files[name] = y
			variants = append(variants, []string{"portfolio", "weights", "-v", comOr(c.J, "CHF"), "--universe", name, main})
		}
		for _, av := range variants {
			o := Run(c.specFor(s, files, av))
			if v := cleanEnd(o, av[0], av[1:], false, "argv "+strings.Join(av, " ")); v != nil {
				v.Signature += ":argv-" + strings.Join(av[:len(av)-1], "_")
				c.Args = av
				return v, false
			}
		}
		return nil, false
	case "soup":
		files = copyFiles(files)
		victim := names[c.N%len(names)]
		text := []byte(files[victim])
		switch r.Intn(4) {
		case 0: // random bytes
			b := make([]byte, r.Range(1, 200))
			for i := range b {
				b[i] = byte(r.Intn(256))
			}
			text = b
		case 1: // flip some bytes
			for k := r.Range(1, 5); k > 0 && len(text) > 0; k-- {
				text[r.Intn(len(text))] = byte(r.Intn(256))
			}
		case 2: // truncate
			if len(text) > 0 {
				text = text[:r.Intn(len(text))]
			}
		case 3: // duplicate a chunk in the middle
			if len(text) > 2 {
				i := r.Intn(len(text) - 1)
				k := r.Range(1, len(text)-i)
				text = append(append(append([]byte{}, text[:i+k]...), text[i:i+k]...), text[i+k:]...)
			}
		}
		files[victim] = string(text)
		argv := c.argv(main)
		if c.Cmd == "format" {
			argv = append([]string{"format"}, names...)
		}
		o := Run(c.specFor(s, files, argv))
		if v := cleanEnd(o, c.Cmd, c.Args, false, "corrupted "+victim); v != nil {
			c.Files = files
			return v, false
		}
		return nil, false
	case "edge":
		files = copyFiles(files)
		if w, ok := strings.CutPrefix(c.Note, "accrual-inverted-inside-period:"); ok {
			files[main] += "\n2020-01-01 open Assets:Acc\n2020-01-01 open Expenses:Edge\n\n@accrue " + w + " Assets:Acc\n2023-03-01 \"inverted inside one period\"\nAssets:Acc Expenses:Edge 1200 CHF\n\n"
		}
		switch c.Note {
		case "accrual-inverted":
			files[main] += "\n2020-01-01 open Assets:Acc\n2020-01-01 open Expenses:Edge\n\n@accrue monthly 2020-12-01 2020-01-01 Assets:Acc\n2020-03-01 \"inverted\"\nAssets:Acc Expenses:Edge 1200 CHF\n\n"
		case "accrual-oneday":
			files[main] += "\n2020-01-01 open Assets:Acc\n2020-01-01 open Expenses:Edge\n\n@accrue daily 2020-03-01 2020-03-01 Assets:Acc\n2020-03-01 \"one day\"\nAssets:Acc Expenses:Edge 1200 CHF\n\n"
		case "accrual-0001":
			files[main] += "\n2020-01-01 open Assets:Acc\n2020-01-01 open Expenses:Edge\n\n@accrue monthly 0001-01-01 0001-12-31 Assets:Acc\n2020-03-01 \"ancient accrual\"\nAssets:Acc Expenses:Edge 1200 CHF\n\n"
		case "date-0001":
			files[main] += "\n0001-01-01 open Assets:Old\n0001-01-01 open Expenses:Old\n\n0001-01-01 \"ancient\"\nAssets:Old Expenses:Old 1 CHF\n\n"
		case "date-9999":
			files[main] += "\n2020-01-01 open Assets:Far\n2020-01-01 open Expenses:Far\n\n9999-12-31 \"far future\"\nAssets:Far Expenses:Far 1 CHF\n\n"
		case "empty":
			files = map[string]string{main: ""}
		case "comments-only":
			files = map[string]string{main: "# nothing\n* here\n// at all\n\n"}
		case "huge-number":
			files[main] += "\n2020-01-01 open Assets:Big\n2020-01-01 open Expenses:Big\n\n2020-03-01 \"big\"\nAssets:Big Expenses:Big 99999999999999999999999999999999999999.99999999999999999999 CHF\n\n"
		case "zero-price":
			files[main] += "\n2019-01-01 price CHF 0 USD\n2019-01-01 price USD 0 CHF\n"
		case "deep-account":
			files[main] += "\n2020-01-01 open Assets:" + strings.Repeat("A:", 300) + "Z\n"
		case "no-final-newline":
			files[main] = strings.TrimRight(files[main], "\n")
		}
		o := Run(c.specFor(s, files, c.argv(main)))
		if v := cleanEnd(o, c.Cmd, c.Args, false, "edge input "+c.Note); v != nil {
			v.Signature += ":" + c.Note
			return v, false
		}
		return nil, false
	}
	return nil, true
}

func sortedKeys(m map[string]string) []string {
	ks := make([]string, 0, len(m))
	for k := range m {
		ks = append(ks, k)
	}
	sort.Strings(ks)
	return ks
}

func dirOf(p string) string {
	if i := strings.LastIndexByte(p, '/'); i > 0 {
		return p[:i]
	}
	return "/"
}
