package harness

import (
	"fmt"
	"regexp"
	"sort"
	"strings"

	"knutsim/simrt"
)

// PDir is one directive read back from knut's own journal syntax.
type PDir struct {
	Date   string
	Kind   string
	Text   string
	Addons []string // annotation lines
	Head   string   // the first line (a description may make it span lines)
	Body   []string // booking / balance lines, fields joined by single blanks
}

var dateRx = regexp.MustCompile(`^\d{4}-\d{2}-\d{2}(\s|$)`)

// ParseKnut is the harness's own minimal reader for `knut print` output.
func ParseKnut(s string) ([]PDir, error) {
	var out []PDir
	var addons []string
	lines := strings.Split(s, "\n")
	for i := 0; i < len(lines); i++ {
		l := strings.TrimRight(lines[i], " \t\r")
		if l == "" {
			continue
		}
		if strings.HasPrefix(l, "@") {
			addons = append(addons, l)
			continue
		}
		if !dateRx.MatchString(l) {
			return nil, fmt.Errorf("line %d: directive expected: %q", i+1, l)
		}
		f := strings.Fields(l)
		d := PDir{Date: f[0], Addons: addons}
		nAddons := len(addons)
		body := append(addons, l)
		addons = nil
		switch {
		case len(f) >= 2 && f[1] == "open":
			d.Kind = "open"
		case len(f) >= 2 && f[1] == "close":
			d.Kind = "close"
		case len(f) >= 2 && f[1] == "price":
			d.Kind = "price"
		case len(f) >= 2 && f[1] == "balance":
			d.Kind = "assert"
			if len(f) == 2 {
				for i+1 < len(lines) && strings.TrimSpace(lines[i+1]) != "" && !dateRx.MatchString(lines[i+1]) && !strings.HasPrefix(lines[i+1], "@") {
					i++
					body = append(body, strings.Join(strings.Fields(lines[i]), " "))
				}
			}
		case len(f) >= 2 && strings.HasPrefix(f[1], "\""):
			d.Kind = "txn"
			// a description may span lines
			for strings.Count(strings.Join(body[len(body)-1:], ""), "\"")%2 == 1 && i+1 < len(lines) {
				i++
				body[len(body)-1] += "\n" + lines[i]
			}
			for i+1 < len(lines) && strings.TrimSpace(lines[i+1]) != "" && !dateRx.MatchString(lines[i+1]) && !strings.HasPrefix(lines[i+1], "@") {
				i++
				body = append(body, strings.Join(strings.Fields(lines[i]), " "))
			}
		default:
			return nil, fmt.Errorf("line %d: unknown directive: %q", i+1, l)
		}
		d.Text = strings.Join(body, "\n")
		d.Head = body[nAddons]
		d.Body = body[nAddons+1:]
		out = append(out, d)
	}
	return out, nil
}

// groupsOf turns a printed journal into its sequence of (date, kind) groups,
// each with the sorted texts of its members.
func groupsOf(ds []PDir) []string {
	var gs []string
	for i := 0; i < len(ds); {
		k := i
		var texts []string
		for k < len(ds) && ds[k].Date == ds[i].Date && ds[k].Kind == ds[i].Kind {
			texts = append(texts, ds[k].Text)
			k++
		}
		sort.Strings(texts)
		gs = append(gs, ds[i].Date+" "+ds[i].Kind+"\n"+strings.Join(texts, "\n--\n"))
		i = k
	}
	return gs
}

// flagBattery is the fixed battery of balance flag sets used by the
// metamorphic checks (C05, C09).
func flagBattery(j *Journal, val string) [][]string {
	_, max, _ := j.TxnSpan()
	to := (max + 10).String()
	b := [][]string{
		{"--to", to, "-a"},
		{"--to", to},
		{"--to", to, "--months", "-a", "--last", "12"},
		{"--to", to, "--quarters", "--diff", "-a"},
		{"--to", to, "--years", "--close=false"},
		{"--to", to, "-a", "-m", "2"},
	}
	if val != "" {
		b = append(b, []string{"--to", to, "-a", "-v", val}, []string{"--to", to, "--months", "--last", "6", "-v", val, "-s", "."})
	}
	return b
}

// C05: directive order and file layout do not matter.
type c05 struct{}

func init() { Register(c05{}) }

func (c05) ID() string { return "C05" }

func (c05) Gen(r *simrt.Rand, idx int, tier string) *Case {
	g := DefaultGen()
	g.MaxTxn = 20
	c := &Case{Sub: "layout", Gen: &g}
	if idx%2 == 1 {
		g.Prices = "tree"
		c.Sub = "layout-valued"
	}
	c.J = Gen(r, g)
	if idx%5 == 4 {
		c.Sub += "+mutant:" + mutate(r, c.J)
	}
	if g.Prices != "" {
		if cs := c.J.Commodities(); len(cs) > 1 {
			c.Val = cs[r.Intn(len(cs))]
		}
	}
	c.Today = "2030-01-01"
	nv := 4
	if tier == "thorough" {
		nv = 6
	}
	mapSeed := r.U64()
	for i := 0; i < nv; i++ {
		if i == 0 && idx%3 == 2 {
			c.Ls = append(c.Ls, WideLayout(r, c.J))
		} else {
			c.Ls = append(c.Ls, RandLayout(r, c.J, 9))
		}
		s := RandSched(r)
		s.MapMode, s.MapSeed = 4, mapSeed // map order held equal across the layouts compared
		c.Scheds = append(c.Scheds, s)
	}
	c.L = CanonLayout(c.J)
	c.N = int(mapSeed % (1 << 31))
	return c
}

func (c05) Eval(c *Case) (*Violation, bool) {
	battery := flagBattery(c.J, c.Val)
	if len(c.Scheds) == 0 {
		return nil, true
	}
	base := c.Scheds[0]
	base.Seed, base.Tape, base.Bias = 0, nil, 0
	type res struct {
		ok     bool
		bal    []string
		groups []string
	}
	runAll := func(l *Layout, s Sched) (*res, *Violation) {
		files := l.Files(c.J)
		o := Run(c.specFor(s, files, []string{"check", l.Main()}))
		if o.Outcome != simrt.OutReturned && o.Outcome != simrt.OutExit {
			return nil, &Violation{Signature: "abnormal-end:" + o.Outcome, Msg: "check ended with " + o.Outcome + " " + o.PanicValue}
		}
		rs := &res{ok: o.OK()}
		if !rs.ok {
			return rs, nil
		}
		for _, fl := range battery {
			argv := append(append([]string{"balance", "--color=false"}, fl...), l.Main())
			ob := Run(c.specFor(s, files, argv))
			if !ob.OK() {
				// only the fact of the failure: diagnostics print Go maps keyed by
				// pointers, whose order follows addresses
				rs.bal = append(rs.bal, "FAILED "+ob.Outcome+ob.PanicValue)
			} else {
				rs.bal = append(rs.bal, ob.Stdout)
			}
		}
		op := Run(c.specFor(s, files, []string{"print", l.Main()}))
		if !op.OK() {
			return nil, &Violation{Signature: "print-fails-on-accepted", Msg: "print fails on a journal that check accepts", Detail: op.Stderr + op.PanicValue}
		}
		ds, err := ParseKnut(op.Stdout)
		if err != nil {
			return nil, &Violation{Signature: "print-unreadable", Msg: err.Error(), Detail: op.Stdout}
		}
		rs.groups = groupsOf(ds)
		return rs, nil
	}
	ref, v := runAll(c.L, base)
	if v != nil {
		return v, false
	}
	for i, l := range c.Ls {
		if i >= len(c.Scheds) {
			break
		}
		got, v := runAll(l, c.Scheds[i])
		if v != nil {
			return v, false
		}
		if got.ok != ref.ok {
			return &Violation{Signature: "verdict-depends-on-layout", Msg: fmt.Sprintf("canonical layout accepted=%v, layout %d accepted=%v", ref.ok, i, got.ok)}, false
		}
		if !ref.ok {
			continue
		}
		for k := range battery {
			if got.bal[k] != ref.bal[k] {
				cls := "content"
				if !strings.HasPrefix(got.bal[k], "FAILED") && !strings.HasPrefix(ref.bal[k], "FAILED") {
					cls = diffClass("", ref.bal[k], got.bal[k])
				}
				return &Violation{Signature: "balance-depends-on-layout:" + cls, Msg: fmt.Sprintf("balance %v differs between the canonical layout and layout %d", battery[k], i), Detail: firstDiff(ref.bal[k], got.bal[k])}, false
			}
		}
		if strings.Join(got.groups, "\n====\n") != strings.Join(ref.groups, "\n====\n") {
			return &Violation{Signature: "print-depends-on-layout", Msg: fmt.Sprintf("printed journal of layout %d differs in more than the order inside (date, kind) groups", i), Detail: firstDiff(strings.Join(ref.groups, "\n====\n"), strings.Join(got.groups, "\n====\n"))}, false
		}
	}
	return nil, !ref.ok && !strings.Contains(c.Sub, "mutant")
}

func firstLine(s string) string {
	if i := strings.IndexByte(s, '\n'); i >= 0 {
		return s[:i]
	}
	return s
}

// C09: print emits a normal form that round-trips.
type c09 struct{}

func init() { Register(c09{}) }

func (c09) ID() string { return "C09" }

func (c09) Gen(r *simrt.Rand, idx int, tier string) *Case {
	g := DefaultGen()
	g.MaxTxn = 20
	g.PAccrual = 0.15
	g.PPerf = 0.25
	g.PAssert = 0.5
	g.InexactAccrual = true
	g.Ancient = idx%25 == 7
	if idx%40 == 11 {
		// a long journal full of multi-byte characters: the printed form is well above
		// the sizes at which readers and writers switch to chunks (4, 32, 64 KiB)
		g.MinTxn, g.MaxTxn = 300, 700
		g.MaxSpan = 700
		g.PUnicode = 0.6
		g.UnicodeDesc = true
		g.PAccrual = 0.02
	}
	c := &Case{Sub: "roundtrip", Gen: &g}
	if idx%2 == 1 {
		g.Prices = "tree"
		c.Sub = "roundtrip-valued"
	}
	c.J = Gen(r, g)
	if g.Prices != "" {
		if cs := c.J.Commodities(); len(cs) > 1 {
			c.Val = cs[r.Intn(len(cs))]
		}
		if idx%4 == 3 {
			// several declarations for one pair on one day, either way round: the
			// printed journal must keep whatever decides which of them counts
			c.Sub = "roundtrip-price-conflict"
			var prices []int
			for i, d := range c.J.Dirs {
				if d.Kind == "price" {
					prices = append(prices, i)
				}
			}
			for k := r.Range(1, 3); k > 0 && len(prices) > 0; k-- {
				d := c.J.Dirs[prices[r.Intn(len(prices))]]
				if r.P(0.6) {
					// the other way round, with an inconsistent value
					d.Com, d.Target = d.Target, d.Com
					d.Price = Q(r.Range(1, 90000))
				} else {
					d.Price += Q(r.Range(1, 50000))
				}
				c.J.Dirs = append(c.J.Dirs, d)
			}
		}
	}
	c.L = RandLayout(r, c.J, 6)
	c.L.SpellMainUncleanly(r)
	c.Today = "2030-01-01"
	c.Scheds = []Sched{RandSched(r)}
	return c
}

func (c09) Eval(c *Case) (*Violation, bool) {
	files := c.L.Files(c.J)
	s := c.Scheds[0]
	o := Run(c.specFor(s, files, []string{"print", c.L.Main()}))
	if o.Outcome != simrt.OutReturned && o.Outcome != simrt.OutExit {
		return &Violation{Signature: "abnormal-end:" + o.Outcome, Msg: "print ended with " + o.Outcome + " " + o.PanicValue, Detail: o.PanicStack}, false
	}
	if !o.OK() {
		noteVacuous(c.Sub, o)
		return nil, true
	}
	pf := map[string]string{"/p/printed.knut": o.Stdout}
	o2 := Run(c.specFor(s, pf, []string{"print", "/p/printed.knut"}))
	if !o2.OK() {
		return &Violation{Signature: "printed-journal-rejected:" + printRejectClass(o2.Stderr), Msg: "the output of print is not accepted by print", Detail: o2.Stderr + o2.PanicValue + "\n---- printed journal\n" + o.Stdout}, false
	}
	if o2.Stdout != o.Stdout {
		return &Violation{Signature: "print-not-idempotent:" + diffClass("", o.Stdout, o2.Stdout), Msg: "printing the printed journal changes it", Detail: firstDiff(o.Stdout, o2.Stdout)}, false
	}
	for _, fl := range flagBattery(c.J, c.Val) {
		a1 := append(append([]string{"balance", "--color=false"}, fl...), c.L.Main())
		a2 := append(append([]string{"balance", "--color=false"}, fl...), "/p/printed.knut")
		b1 := Run(c.specFor(s, files, a1))
		b2 := Run(c.specFor(s, pf, a2))
		if b1.OK() != b2.OK() {
			return &Violation{Signature: "report-status-differs", Msg: fmt.Sprintf("balance %v: original ok=%v, printed ok=%v", fl, b1.OK(), b2.OK()), Detail: b1.Stderr + b2.Stderr}, false
		}
		if b1.OK() && b1.Stdout != b2.Stdout {
			hasTie := !contains(fl, "-a")
			sig := "report-differs:" + diffClass("", b1.Stdout, b2.Stdout)
			if hasTie {
				sig += ":weighted"
			}
			return &Violation{Signature: sig, Msg: fmt.Sprintf("balance %v of the printed journal differs from that of the original", fl), Detail: firstDiff(b1.Stdout, b2.Stdout)}, false
		}
	}
	return nil, false
}

func contains(ss []string, s string) bool {
	for _, x := range ss {
		if x == s {
			return true
		}
	}
	return false
}

func printRejectClass(stderr string) string {
	switch {
	case strings.Contains(stderr, "unexpected character") || strings.Contains(stderr, "parsing"):
		return "syntax"
	case strings.Contains(stderr, "failed assertion"):
		return "assertion"
	}
	return "other"
}
