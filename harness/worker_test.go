package harness

import (
	"encoding/json"
	"fmt"
	"os"
	"strings"
	"testing"

	"knutsim/simrt"
)

// TestWorker is the entry point used by bin/check: the job is read from the
// file named by SIM_JOB, the result is written to job.Out.
func TestWorker(t *testing.T) {
	theT = t
	jf := os.Getenv("SIM_JOB")
	if jf == "" {
		t.Skip("no SIM_JOB")
	}
	b, err := os.ReadFile(jf)
	if err != nil {
		t.Fatal(err)
	}
	var job Job
	if err := json.Unmarshal(b, &job); err != nil {
		t.Fatal(err)
	}
	res := RunJob(&job)
	out, _ := json.Marshal(res)
	if err := os.WriteFile(job.Out, out, 0o644); err != nil {
		t.Fatal(err)
	}
}

// TestDebug evaluates one case (SIM_DEBUG=PROP:index[:seed]) and dumps it.
func TestDebug(t *testing.T) {
	theT = t
	spec := os.Getenv("SIM_DEBUG")
	if spec == "" {
		t.Skip()
	}
	var prop string
	var idx int
	var seed uint64 = 1
	fmt.Sscanf(strings.ReplaceAll(spec, ":", " "), "%s %d %d", &prop, &idx, &seed)
	p := registry[prop]
	if hi := os.Getenv("SIM_DEBUG_TO"); hi != "" {
		var to int
		fmt.Sscanf(hi, "%d", &to)
		for i := idx; i < to; i++ {
			r := simrt.NewRand(caseSeed(seed, prop, i))
			c := p.Gen(r, i, "quick")
			if c == nil {
				continue
			}
			c.Prop, c.Seed, c.Index = prop, seed, i
			v, vac := p.Eval(c)
			sig := ""
			if v != nil {
				sig = v.Signature + " " + v.Msg
			}
			fmt.Printf("%d %s vac=%v %s\n", i, c.Sub, vac, sig)
		}
		return
	}
	r := simrt.NewRand(caseSeed(seed, prop, idx))
	c := p.Gen(r, idx, "quick")
	c.Prop, c.Seed, c.Index = prop, seed, idx
	if c.J != nil {
		for n, s := range c.L.Files(c.J) {
			fmt.Printf("=== %s\n%s\n", n, s)
		}
	}
	for n, s := range c.Files {
		fmt.Printf("=== %s\n%s\n", n, s)
	}
	fmt.Println("cmd:", c.Cmd, c.Args, c.ArgSet)
	if c.J != nil {
		o := Run(&Spec{Files: c.L.Files(c.J), Argv: c.argv(c.L.Main()), Today: c.Today, Sched: CanonSched()})
		fmt.Printf("outcome=%s exit=%d\nstdout:\n%s\nstderr:\n%s\n%s\n", o.Outcome, o.ExitCode, o.Stdout, o.Stderr, o.PanicValue)
	}
	v, vac := p.Eval(c)
	fmt.Printf("violation=%+v vacuous=%v\n", v, vac)
}

// TestDetDump is the determinism self-test's worker: it evaluates the cases
// named in SIM_DET ("PROP:from:to,...") and prints one digest line per property
// that covers every simulated run (event log, exit status, stdout, stderr).
func TestDetDump(t *testing.T) {
	theT = t
	spec := os.Getenv("SIM_DET")
	if spec == "" {
		t.Skip()
	}
	for _, part := range strings.Split(spec, ",") {
		var prop string
		var from, to int
		fmt.Sscanf(strings.ReplaceAll(part, ":", " "), "%s %d %d", &prop, &from, &to)
		p := registry[prop]
		if p == nil {
			t.Fatalf("unknown property %s", prop)
		}
		Ctr = NewCounters()
		nv := 0
		for i := from; i < to; i++ {
			r := simrt.NewRand(caseSeed(99, prop, i))
			c := p.Gen(r, i, "quick")
			if c == nil || c.Sub == "race" {
				continue
			}
			c.Prop, c.Seed, c.Index = prop, 99, i
			if v, _ := p.Eval(c); v != nil {
				nv++
			}
		}
		fmt.Printf("DET %s cases=%d-%d runs=%d steps=%d violations=%d digest=%016x\n", prop, from, to, Ctr.Runs, Ctr.Steps, nv, Ctr.Digest)
	}
}
