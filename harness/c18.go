package harness

import (
	"fmt"
	"os"
	"os/exec"
	"path/filepath"
	"sort"
	"strings"

	"knutsim/simrt"
)

// C18: in-place rewrites are all-or-nothing. For each workload the fault-free
// run is traced; then every file-system operation of the run is failed in turn
// with each applicable errno, every byte offset of each payload write is cut
// short, and a crash is placed before every operation and after the last; the
// crash checker enumerates every legal durable image (simrt.CrashImages).
type c18 struct{}

func init() { Register(c18{}) }

func (c18) ID() string { return "C18" }

func messy(r *simrt.Rand, j *Journal) string {
	// a parseable but unformatted rendering: irregular spacing, tabs, comments
	var b strings.Builder
	l := CanonLayout(j)
	for _, di := range l.Order {
		d := j.Dirs[di]
		txt := d.Render()
		if d.Kind == "txn" {
			lines := strings.Split(strings.TrimRight(txt, "\n"), "\n")
			for i, ln := range lines {
				if i > 0 && !strings.HasPrefix(ln, "@") && !dateRx.MatchString(ln) {
					f := strings.Fields(ln)
					sep := []string{" ", "   ", "\t", "  \t "}[r.Intn(4)]
					ln = strings.Join(f, sep)
				}
				lines[i] = ln
			}
			txt = strings.Join(lines, "\n") + "\n"
		}
		if r.P(0.2) {
			b.WriteString("# a comment that must survive\n")
		}
		b.WriteString(txt)
		b.WriteString("\n")
	}
	out := b.String()
	if r.P(0.2) {
		// a journal with CRLF line ends
		out = strings.ReplaceAll(out, "\n", "\r\n")
	}
	return out
}

func (c18) Gen(r *simrt.Rand, idx int, tier string) *Case {
	g := DefaultGen()
	g.MaxTxn = 5
	g.MaxAcc = 5
	g.MaxSpan = 60
	g.PAssert = 0.2
	c := &Case{Gen: &g, Today: "2030-01-01", Files: map[string]string{}}
	subs := []string{"format-1", "format-n", "infer-inplace", "format-1", "format-n", "infer-same", "format-rodir", "format-symlink", "infer-symlink"}
	c.Sub = subs[idx%len(subs)]
	if idx%37 == 36 {
		c.Sub = "real-fsize"
	}
	c.Scheds = []Sched{RandSched(r)}
	switch c.Sub {
	case "format-1", "format-rodir", "real-fsize":
		c.Files["/w/a.knut"] = messy(r, Gen(r, g))
		c.Args = []string{"/w/a.knut"}
		c.N = r.Intn(1 << 20)
	case "format-symlink":
		// the journal is reached through a symbolic link
		c.Files["/w/real/a.knut"] = messy(r, Gen(r, g))
		c.Links = map[string]string{"/w/a.knut": "real/a.knut"}
		c.Args = []string{"/w/a.knut"}
	case "infer-symlink":
		j := Gen(r, g)
		accs := j.Accounts()
		c.Files["/w/train.knut"] = messy(r, j)
		c.Files["/w/real/t.knut"] = fmt.Sprintf("2021-01-02 \"%s\"\n%s   Expenses:TBD  %d CHF\n\n", descPool[r.Intn(len(descPool)-1)], accs[r.Intn(len(accs))], r.Range(1, 99))
		c.Links = map[string]string{"/w/t.knut": "/w/real/t.knut"}
		c.Args = []string{"-t", "/w/train.knut", "--inplace", "/w/t.knut"}
	case "format-n":
		n := r.Range(2, 4)
		// one case in eight: many files of which most do not parse (nine to thirteen failures ahead of,
		// or mixed with, one to three files that can be formatted): every failure is reported, none
		// holds up the files that are fine
		many := r.P(0.125)
		good := map[int]bool{}
		if many {
			n = r.Range(11, 15)
			for k := r.Range(1, 3); k > 0; k-- {
				if r.Bool() {
					good[n-k] = true
				} else {
					good[r.Intn(n)] = true
				}
			}
		}
		for i := 0; i < n; i++ {
			name := fmt.Sprintf("/w/f%02d.knut", i)
			txt := messy(r, Gen(r, g))
			if r.P(0.3) || (many && !good[i]) {
				txt = "2020-01-01 opn Assets:Broken\n" + txt // does not parse
			}
			c.Files[name] = txt
			c.Args = append(c.Args, name)
		}
	case "infer-inplace", "infer-same":
		j := Gen(r, g)
		train := messy(r, j)
		accs := j.Accounts()
		tgt := train
		if c.Sub == "infer-inplace" {
			tgt = ""
		}
		for k := r.Range(1, 3); k > 0; k-- {
			tgt += fmt.Sprintf("2021-01-%02d \"%s\"\n%s   Expenses:TBD  %d CHF\n\n", k, descPool[r.Intn(len(descPool)-1)], accs[r.Intn(len(accs))], r.Range(1, 99))
		}
		// a fifth of the cases fail before anything is written: a target that does not
		// parse, or a training journal that cannot be loaded
		switch r.Intn(10) {
		case 0:
			tgt = "2020-01-01 opn Assets:Typo\n\n" + tgt
		case 1:
			train = "include \"not/there.knut\"\n" + train
			if c.Sub == "infer-same" {
				tgt = "include \"not/there.knut\"\n" + tgt
			}
		}
		if c.Sub == "infer-same" {
			c.Files["/w/t.knut"] = tgt
			c.Args = []string{"-t", "/w/t.knut", "--inplace", "/w/t.knut"}
		} else {
			c.Files["/w/train.knut"] = train
			c.Files["/w/t.knut"] = tgt
			c.Args = []string{"-t", "/w/train.knut", "--inplace", "/w/t.knut"}
		}
	}
	return c
}

func (c18) targets(c *Case) []string {
	if strings.HasPrefix(c.Sub, "format") {
		return c.Args
	}
	return []string{c.Args[len(c.Args)-1]}
}

func faultKindsFor(op string) []string {
	switch op {
	case "create", "open", "trunc":
		return []string{"eacces", "enospc", "eio"}
	case "write":
		return []string{"enospc", "eio"}
	case "sync", "close":
		return []string{"eio", "enospc"}
	case "stat":
		return []string{"eacces", "eio"}
	case "chmod":
		return []string{"eacces", "eio"}
	case "rename":
		return []string{"eacces", "eio", "enospc"}
	case "remove":
		return []string{"eacces", "eio"}
	}
	return nil
}

// evalRealFsize is engine X's corroboration (never the deciding step for the
// simulated sub-checks): the shipped, uninstrumented binary formats a real file
// under a real RLIMIT_FSIZE of k bytes (prlimit), for drawn k; the kernel stops
// the write at byte k (Go ignores SIGXFSZ and sees EFBIG).
func evalRealFsize(c *Case) (*Violation, bool) {
	bin := os.Getenv("KNUT_X")
	prl, err := exec.LookPath("prlimit")
	if bin == "" || err != nil {
		return nil, true
	}
	if _, err := os.Stat(bin); err != nil {
		return nil, true
	}
	dir, err := os.MkdirTemp("/dev/shm", "knutx-")
	if err != nil {
		if dir, err = os.MkdirTemp("", "knutx-"); err != nil {
			return nil, true
		}
	}
	defer os.RemoveAll(dir)
	old := c.Files["/w/a.knut"]
	target := filepath.Join(dir, "a.knut")
	write := func() { _ = os.WriteFile(target, []byte(old), 0o644) }
	write()
	if out, err := exec.Command(bin, "format", target).CombinedOutput(); err != nil {
		_ = out
		return nil, true
	}
	nb, _ := os.ReadFile(target)
	newc := string(nb)
	if newc == old {
		return nil, true
	}
	rr := simrt.NewRand(uint64(c.N) + 3)
	ks := []int{0, 1, len(newc) - 1, len(newc), len(newc) + 1}
	for i := 0; i < 20; i++ {
		ks = append(ks, rr.Intn(len(newc)+1))
	}
	for _, k := range ks {
		write()
		cmd := exec.Command(prl, fmt.Sprintf("--fsize=%d", k), bin, "format", target)
		_ = cmd.Run()
		got, err := os.ReadFile(target)
		Extra["real_fsize_runs"]++
		if err != nil {
			return &Violation{Signature: "real:target-missing", Msg: fmt.Sprintf("shipped binary under RLIMIT_FSIZE=%d: the file is gone", k)}, false
		}
		if string(got) != old && string(got) != newc {
			return &Violation{Signature: "real:torn-file", Msg: fmt.Sprintf("shipped binary under RLIMIT_FSIZE=%d: the file holds neither its old nor its new contents (%d bytes; old %d, new %d)", k, len(got), len(old), len(newc))}, false
		}
		ents, _ := os.ReadDir(dir)
		if len(ents) != 1 {
			return &Violation{Signature: "real:leftover-temp-file", Msg: fmt.Sprintf("shipped binary under RLIMIT_FSIZE=%d leaves %d files behind", k, len(ents)-1)}, false
		}
	}
	return nil, false
}

func (c18) Eval(c *Case) (*Violation, bool) {
	if c.Sub == "real-fsize" {
		return evalRealFsize(c)
	}
	s := c.Scheds[0]
	cmd := "format"
	if strings.HasPrefix(c.Sub, "infer") {
		cmd = "infer"
	}
	argv := append([]string{cmd}, c.Args...)
	targets := (c18{}).targets(c)
	mk := func(f map[int]simrt.Fault) *Spec {
		sp := c.specFor(s, c.Files, argv)
		sp.Faults = f
		sp.Links = c.Links
		if c.Sub == "format-rodir" {
			sp.ReadOnlyDirs = []string{"/w"}
		}
		if c.N%3 == 1 {
			sp.Modes = map[string]uint32{}
			for _, t := range targets {
				sp.Modes[t] = 0o600
			}
		}
		return sp
	}
	base := Run(mk(nil))
	if base.Outcome != simrt.OutReturned && base.Outcome != simrt.OutExit {
		return &Violation{Signature: "abnormal-end:" + base.Outcome, Msg: cmd + " ended with " + base.Outcome + " " + base.PanicValue, Detail: base.PanicStack}, false
	}
	old := c.Files
	if len(c.Links) > 0 {
		// through the link a reader sees the linked journal; both paths must
		// hold complete old or complete new contents afterwards
		old = copyFiles(c.Files)
		for l, t := range c.Links {
			real := t
			if !strings.HasPrefix(t, "/") {
				real = dirOf(l) + "/" + t
			}
			old[l] = c.Files[real]
			targets = append(targets, real)
		}
	}
	newc := base.FS
	changed := false
	for _, t := range targets {
		if newc[t] != old[t] {
			changed = true
		}
	}
	if c.Sub == "format-rodir" {
		// an unwritable directory: whatever the command manages to do, each
		// target holds its complete old or its complete new contents
		for _, t := range targets {
			if got := base.FS[t]; got != old[t] {
				sp := mk(nil)
				sp.ReadOnlyDirs = nil
				free := Run(sp)
				if got != free.FS[t] {
					return &Violation{Signature: "torn-file:readonly-dir", Msg: t + " holds neither its old nor its new contents after a run in an unwritable directory"}, false
				}
			}
		}
		for p := range base.FS {
			if _, ok := old[p]; !ok {
				return &Violation{Signature: "leftover-temp-file", Msg: p + " is left behind"}, false
			}
		}
		return nil, false
	}
	// a command that fails before writing (training journal not loadable, target not
	// parseable) leaves its single target bit-identical
	if strings.HasPrefix(c.Sub, "infer") && !base.OK() {
		for _, t := range targets {
			if base.FS[t] != old[t] {
				return &Violation{Signature: "failed-command-modified-file", Msg: fmt.Sprintf("infer --inplace fails (%s) but %s was modified (%d bytes before, %d after)", firstLine(base.Stderr), t, len(old[t]), len(base.FS[t])), Detail: firstDiff(old[t], base.FS[t])}, false
			}
		}
	}
	// the fault-free run: a file that does not parse is bit-identical, the others are rewritten
	for _, t := range (c18{}).targets(c) {
		if strings.HasPrefix(old[t], "2020-01-01 opn ") {
			if base.FS[t] != old[t] {
				return &Violation{Signature: "unparseable-file-modified", Msg: t + " does not parse but was modified", Detail: firstDiff(old[t], base.FS[t])}, false
			}
		} else if c.Sub == "format-n" && len(targets) > 1 {
			// a failure on another file must not prevent this one: formatting it together
			// with the others gives what formatting it alone gives
			solo := Run(c.specFor(s, c.Files, []string{"format", t}))
			if solo.OK() && base.FS[t] != solo.FS[t] {
				return &Violation{Signature: "parseable-file-not-rewritten", Msg: t + " is formatted when passed alone but not when passed together with the others", Detail: base.Stderr}, false
			}
		}
	}
	for p := range base.FS {
		if _, ok := old[p]; !ok {
			return &Violation{Signature: "leftover-file", Msg: "fault-free run leaves " + p + " behind"}, false
		}
	}
	if !changed {
		return nil, true // nothing to tear: vacuous
	}
	check := func(img map[string]string, what string, crash bool) *Violation {
		for _, t := range targets {
			got, ok := img[t]
			if !ok {
				return &Violation{Signature: "target-missing", Msg: fmt.Sprintf("%s: %s does not exist any more", what, t)}
			}
			if got != old[t] && got != newc[t] {
				cls := "mixed"
				if strings.HasPrefix(newc[t], got) {
					cls = "truncated-new"
				} else if got == "" {
					cls = "empty"
				}
				return &Violation{Signature: "torn-file:" + cls, Msg: fmt.Sprintf("%s: %s holds neither its old nor its new contents (%d bytes; old %d, new %d)", what, t, len(got), len(old[t]), len(newc[t]))}
			}
		}
		if !crash {
			for p := range img {
				if _, ok := old[p]; !ok {
					return &Violation{Signature: "leftover-temp-file", Msg: fmt.Sprintf("%s: %s is left behind after the command returned", what, p)}
				}
			}
		}
		return nil
	}
	// which target an operation works for: the file its task read last
	owner := make([]string, len(base.Trace))
	lastRead := map[string]string{}
	for i, op := range base.Trace {
		if op.Op == "readfile" {
			lastRead[op.Task] = op.Path
		}
		owner[i] = lastRead[op.Task]
	}
	nfaults, ncrash, nimg, nrerun := 0, 0, 0, 0
	for _, op := range base.Trace {
		kinds := faultKindsFor(op.Op)
		for _, k := range kinds {
			var args []int
			if op.Op == "write" && k == "enospc" {
				n := op.Len
				if n <= 700 {
					for i := 0; i <= n; i++ {
						args = append(args, i)
					}
				} else {
					args = []int{0, 1, n - 1, n}
					for i := 0; i < 64; i++ {
						args = append(args, int(simrt.Mix(uint64(c.N), uint64(i), uint64(op.N))%uint64(n)))
					}
				}
			} else {
				args = []int{0}
			}
			for _, a := range args {
				o := Run(mk(map[int]simrt.Fault{op.N: {Kind: k, Arg: a}}))
				firedAs := op.Op
				if op.Op == "create" || op.Op == "trunc" {
					firedAs = "open"
				}
				if o.Fired[firedAs+":"+k] == 0 {
					Extra["fault_not_fired"]++
					continue
				}
				nfaults++
				if o.Outcome != simrt.OutReturned && o.Outcome != simrt.OutExit {
					return &Violation{Signature: "abnormal-end:" + o.Outcome, Msg: fmt.Sprintf("%s on %s: %s ended with %s %s", k, op.Op, cmd, o.Outcome, o.PanicValue)}, false
				}
				what := fmt.Sprintf("%s(%d) on op %d %s %s", k, a, op.N, op.Op, op.Path)
				if v := check(o.FS, what, false); v != nil {
					c.Faults = map[int]simrt.Fault{op.N: {Kind: k, Arg: a}}
					return v, false
				}
				// other targets must not be prevented: a fault on the temp file of one target leaves the others complete
				if c.Sub == "format-n" {
					for _, t := range targets {
						if owner[op.N] != "" && owner[op.N] != t && o.FS[t] != newc[t] && newc[t] != old[t] {
							c.Faults = map[int]simrt.Fault{op.N: {Kind: k, Arg: a}}
							return &Violation{Signature: "failure-prevents-other-file", Msg: fmt.Sprintf("%s: %s was not rewritten although the fault hit another file", what, t)}, false
						}
					}
				}
			}
		}
	}
	// persistent conditions: from some operation on every operation of that kind fails (a file
	// system that refuses renames, a disk that stays full, a directory that became read-only)
	for _, op := range base.Trace {
		for _, k := range faultKindsFor(op.Op) {
			if op.Op == "remove" {
				continue
			}
			flt := simrt.Fault{Kind: k, Sticky: true}
			o := Run(mk(map[int]simrt.Fault{op.N: flt}))
			if o.Outcome != simrt.OutReturned && o.Outcome != simrt.OutExit {
				c.Faults = map[int]simrt.Fault{op.N: flt}
				return &Violation{Signature: "abnormal-end:" + o.Outcome + ":persistent", Msg: fmt.Sprintf("persistent %s from %s on: %s ended with %s %s", k, op.Op, cmd, o.Outcome, o.PanicValue)}, false
			}
			if v := check(o.FS, fmt.Sprintf("persistent %s from op %d %s %s on", k, op.N, op.Op, op.Path), false); v != nil {
				v.Signature += ":persistent"
				c.Faults = map[int]simrt.Fault{op.N: flt}
				return v, false
			}
			Extra["persistent_faults"]++
		}
	}
	// a fault and then a crash while the command handles it: every operation of the
	// error-handling path is a crash point too
	for _, op := range base.Trace {
		if len(c.Links) != 0 {
			break
		}
		for _, k := range faultKindsFor(op.Op) {
			flt := simrt.Fault{Kind: k}
			o := Run(mk(map[int]simrt.Fault{op.N: flt}))
			for p := op.N + 1; p <= len(o.Trace) && p <= op.N+8; p++ {
				tr := o.Trace
				if p < len(o.Trace) {
					oc := Run(mk(map[int]simrt.Fault{op.N: flt, p: {Kind: "crash"}}))
					if oc.Outcome != simrt.OutCrash {
						continue
					}
					tr = oc.Trace
				}
				for _, img := range simrt.CrashImages(old, tr, p) {
					if v := check(img, fmt.Sprintf("%s on op %d %s, then a crash before op %d (%s)", k, op.N, op.Op, p, opName(tr, p)), true); v != nil {
						v.Signature += ":fault-then-crash"
						c.Faults = map[int]simrt.Fault{op.N: flt, p: {Kind: "crash"}}
						v.Detail = describeImage(img)
						return v, false
					}
				}
				Extra["fault_then_crash_points"]++
			}
		}
	}
	if c.Tier == "thorough" {
		// drawn pairs of faults (for example a short write and a failing cleanup)
		rr := simrt.NewRand(uint64(c.N)*31 + 7)
		for k := 0; k < 40 && len(base.Trace) >= 2; k++ {
			a, b := base.Trace[rr.Intn(len(base.Trace))], base.Trace[rr.Intn(len(base.Trace))]
			ka, kb := faultKindsFor(a.Op), faultKindsFor(b.Op)
			if a.N == b.N || len(ka) == 0 || len(kb) == 0 {
				continue
			}
			fa := simrt.Fault{Kind: ka[rr.Intn(len(ka))], Arg: rr.Intn(a.Len + 1)}
			fb := simrt.Fault{Kind: kb[rr.Intn(len(kb))], Arg: rr.Intn(b.Len + 1)}
			o := Run(mk(map[int]simrt.Fault{a.N: fa, b.N: fb}))
			if o.Outcome != simrt.OutReturned && o.Outcome != simrt.OutExit {
				return &Violation{Signature: "abnormal-end:" + o.Outcome + ":pair", Msg: fmt.Sprintf("fault pair: %s ended with %s %s", cmd, o.Outcome, o.PanicValue)}, false
			}
			removeFailed := false
			for k2, n2 := range o.Fired {
				if strings.HasPrefix(k2, "remove:") && n2 > 0 {
					removeFailed = true
				}
			}
			// with a failing cleanup a temp file may legitimately stay behind
			if v := check(o.FS, fmt.Sprintf("faults %+v on op %d and %+v on op %d", fa, a.N, fb, b.N), removeFailed); v != nil {
				v.Signature += ":pair"
				c.Faults = map[int]simrt.Fault{a.N: fa, b.N: fb}
				return v, false
			}
			Extra["write_fault_pairs"]++
		}
	}
	// crashes: before every operation and after the last (the crash-image
	// model does not know symbolic links: those workloads get faults only)
	for p := 0; p <= len(base.Trace) && len(c.Links) == 0; p++ {
		var tr []simrt.FsOp
		if p < len(base.Trace) {
			o := Run(mk(map[int]simrt.Fault{p: {Kind: "crash"}}))
			if o.Outcome != simrt.OutCrash {
				Extra["crash_not_fired"]++
				continue
			}
			tr = o.Trace
		} else {
			tr = base.Trace
		}
		ncrash++
		imgs := simrt.CrashImages(old, tr, p)
		nimg += len(imgs)
		for _, img := range imgs {
			if v := check(img, fmt.Sprintf("crash before op %d (%s)", p, opName(base.Trace, p)), true); v != nil {
				c.Faults = map[int]simrt.Fault{p: {Kind: "crash"}}
				v.Detail = describeImage(img)
				return v, false
			}
		}
		// after the crash the user runs the command again, undisturbed, on what
		// the disk holds (including whatever the crashed run left behind): the
		// targets must end up with exactly the new contents
		tried := 0
		for _, img := range imgs {
			leftover := false
			for pth := range img {
				if _, ok := old[pth]; !ok {
					leftover = true
				}
			}
			if !leftover && tried > 0 {
				continue
			}
			if tried >= 3 {
				break
			}
			tried++
			sp := mk(nil)
			sp.Files = map[string]string(img)
			o2 := Run(sp)
			nrerun++
			if o2.Outcome != simrt.OutReturned && o2.Outcome != simrt.OutExit {
				return &Violation{Signature: "abnormal-end:" + o2.Outcome + ":rerun", Msg: fmt.Sprintf("re-running %s after a crash before op %d ended with %s %s", cmd, p, o2.Outcome, o2.PanicValue)}, false
			}
			if o2.OK() != base.OK() {
				continue
			}
			if leftover && strings.HasPrefix(c.Sub, "format") && len(c.Links) == 0 {
				// ... or the user first shortens the journal (drops its second half)
				// and then runs the command: what the crashed run left behind must
				// not leak into the result
				t0 := (c18{}).targets(c)[0]
				blocks := strings.Split(old[t0], "\n\n")
				if len(blocks) > 3 {
					short := strings.Join(blocks[:len(blocks)/2], "\n\n") + "\n"
					clean := copyFiles(old)
					clean[t0] = short
					spc := mk(nil)
					spc.Files = clean
					ref := Run(spc)
					dirty := copyFiles(map[string]string(img))
					dirty[t0] = short
					spd := mk(nil)
					spd.Files = dirty
					got := Run(spd)
					nrerun++
					if ref.OK() == got.OK() && got.FS[t0] != ref.FS[t0] {
						c.Faults = map[int]simrt.Fault{p: {Kind: "crash"}}
						return &Violation{Signature: "rerun-after-crash-corrupts:edited", Msg: fmt.Sprintf("crash before op %d (%s), then the journal is shortened and the command run again: %s holds %d bytes, a run without the crashed run's leftovers gives %d", p, opName(base.Trace, p), t0, len(got.FS[t0]), len(ref.FS[t0])), Detail: describeImage(img)}, false
					}
				}
			}
			for _, t := range (c18{}).targets(c) {
				if o2.FS[t] != newc[t] {
					c.Faults = map[int]simrt.Fault{p: {Kind: "crash"}}
					return &Violation{Signature: "rerun-after-crash-corrupts", Msg: fmt.Sprintf("crash before op %d (%s), then an undisturbed run of the same command: %s does not hold the new contents (%d bytes, expected %d)", p, opName(base.Trace, p), t, len(o2.FS[t]), len(newc[t])), Detail: describeImage(img)}, false
				}
			}
		}
	}
	Extra["write_faults_enumerated"] += nfaults
	Extra["crash_points"] += ncrash
	Extra["crash_images_checked"] += nimg
	Extra["reruns_after_crash"] += nrerun
	return nil, false
}

func opName(tr []simrt.FsOp, p int) string {
	if p < len(tr) {
		return tr[p].Op + " " + tr[p].Path
	}
	return "end"
}

func baseName(p string) string { return p[strings.LastIndexByte(p, '/')+1:] }

func describeImage(img map[string]string) string {
	var ks []string
	for k := range img {
		ks = append(ks, k)
	}
	sort.Strings(ks)
	var b strings.Builder
	for _, k := range ks {
		fmt.Fprintf(&b, "%s: %d bytes\n", k, len(img[k]))
	}
	return b.String()
}

