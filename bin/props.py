# Per-property configuration of bin/check: level, budgets, evidence texts.
GEN_RULE = ("cases are drawn from the structured journal generator G (accounts, commodities, dated opens/closes, "
            "transactions incl. negative/zero amounts, accruals, @performance, assertions, prices) rendered into a random "
            "include tree and directive order, plus a drawn flag combination and a swarm of schedules (scheduler seed, bias, "
            "map-order mode and seed, lock-yield policy, worker count); a case is distinct by the hash of its journal, files, "
            "flags and fault plan, and non-trivial when the oracle was actually exercised (not vacuous, e.g. the command succeeded where success is a precondition)")

DEFAULT_Q = {"cases": 3000, "secs": 40, "shrink_secs": 10}
DEFAULT_T = {"cases": 0, "secs": 900, "shrink_secs": 30}
PROPS = {
    "C01": {"level": "exploration", "engines": "S", "quick": DEFAULT_Q, "thorough": DEFAULT_T, "rule": GEN_RULE, "assumptions": []},
    "C04": {"level": "exploration", "engines": "S", "quick": DEFAULT_Q, "thorough": DEFAULT_T, "rule": GEN_RULE, "assumptions": ["assertions on accounts other than assets/liabilities are not generated (the property is silent)"]},
    "C05": {"level": "exploration", "engines": "S", "quick": {"cases": 300, "secs": 45, "shrink_secs": 10}, "thorough": DEFAULT_T, "rule": GEN_RULE, "assumptions": ["map iteration order is held equal (per-content mode, same seed) between the layouts compared; run-to-run determinism is C06"]},
    "C09": {"level": "exploration", "engines": "S", "quick": {"cases": 600, "secs": 45, "shrink_secs": 10}, "thorough": DEFAULT_T, "rule": GEN_RULE, "assumptions": []},
    "C19": {"level": "exploration", "engines": "S", "quick": {"cases": 1200, "secs": 45, "shrink_secs": 10}, "thorough": DEFAULT_T, "rule": GEN_RULE, "assumptions": []},
    "C14": {"level": "fault_enumeration", "engines": "S", "quick": {"cases": 560, "secs": 50, "shrink_secs": 8}, "thorough": DEFAULT_T,
            "rule": GEN_RULE + "; per workload the fault-free run is traced and every read operation (ReadFile/Open/Read) is failed in turn with ENOENT, EACCES, EISDIR, EIO, a truncated and a bit-flipped result; include graphs (self, 2- and 3-cycles, diamond, missing, directory), flag faults, byte soup and edge inputs are separate sub-checks", "assumptions": ["one fault per run", "step budget 20000 / task budget 2000 stand for 'does not terminate'"]},
    "C18": {"level": "fault_enumeration", "engines": "S", "quick": {"cases": 112, "secs": 50, "shrink_secs": 8}, "thorough": DEFAULT_T,
            "rule": "workloads: knut format on one file, on 2-4 files (parseable, unparseable, mixed; worker count varied), in an unwritable directory, and knut infer --inplace (training file separate or identical to the target); per workload the fault-free run is traced, then every file-system operation is failed with every applicable errno, every byte offset of every payload write (all offsets up to 700 bytes, 68 drawn offsets above) is cut short with ENOSPC, and a crash is placed before every operation and after the last, with every legal durable image enumerated (directory operations persist in order, any suffix may be lost; data is durable only after fsync, any prefix of unsynced bytes may persist); a case is non-trivial when the fault-free run changes at least one file",
            "assumptions": ["crash model: ordered metadata, data durable after fsync (ext4 data=ordered-like); one fault per run", "exit status after a fault belongs to C14 and is not judged here", "fetch.writeFile is not exercised (no network)"]},
    "C02": {"level": "exploration", "engines": "S", "quick": DEFAULT_Q, "thorough": DEFAULT_T, "rule": GEN_RULE, "assumptions": []},
    "C06": {
        "level": "exploration",
        "engines": "S",
        "quick": {"cases": 480, "secs": 50, "shrink_secs": 10},
        "thorough": {"cases": 0, "secs": 900, "shrink_secs": 30},
        "rule": GEN_RULE,
        "assumptions": ["every permutation of a map iteration is a legal execution (Go spec), although today's runtime produces only a subset",
                        "stderr is not part of the property (stdout and exit status are)"],
    },
}
