# Per-property configuration of bin/check: level, budgets, evidence texts.
GEN_RULE = ("cases are drawn from the structured journal generator G (accounts, commodities, dated opens/closes, "
            "transactions incl. negative/zero amounts, accruals, @performance, assertions, prices) rendered into a random "
            "include tree and directive order, plus a drawn flag combination and a swarm of schedules (scheduler seed, bias, "
            "map-order mode and seed, lock-yield policy, worker count); a case is distinct by the hash of its journal, files, "
            "flags and fault plan, and non-trivial when the oracle was actually exercised (not vacuous, e.g. the command succeeded where success is a precondition)")

DEFAULT_Q = {"cases": 400, "secs": 50, "shrink_secs": 10}
DEFAULT_T = {"cases": 0, "secs": 900, "shrink_secs": 30}
PROPS = {
    "C01": {"level": "exploration", "engines": "S", "quick": DEFAULT_Q, "thorough": DEFAULT_T, "rule": GEN_RULE, "assumptions": []},
    "C02": {"level": "exploration", "engines": "S", "quick": DEFAULT_Q, "thorough": DEFAULT_T, "rule": GEN_RULE, "assumptions": []},
    "C06": {
        "level": "exploration",
        "engines": "S",
        "quick": {"cases": 480, "secs": 50, "shrink_secs": 10},
        "thorough": {"cases": 0, "secs": 900, "shrink_secs": 30},
        "rule": GEN_RULE,
        "assumptions": ["every permutation of a map iteration is a legal execution (Go spec), although today's runtime produces only a subset",
                        "stderr is not part of the property (stdout and exit status are)"],
    },
}
