# Per-property configuration of bin/check: level, budgets, evidence texts.
GEN_RULE = ("cases are drawn from the structured journal generator G (accounts, commodities, dated opens/closes, "
            "transactions incl. negative/zero amounts, accruals, @performance, assertions, prices) rendered into a random "
            "include tree and directive order, plus a drawn flag combination and a swarm of schedules (scheduler seed, bias, "
            "map-order mode and seed, lock-yield policy, worker count); a case is distinct by the hash of its journal, files, "
            "flags and fault plan, and non-trivial when the oracle was actually exercised (not vacuous, e.g. the command succeeded where success is a precondition)")

DEFAULT_Q = {"cases": 12000, "secs": 40, "shrink_secs": 10}
DEFAULT_T = {"cases": 0, "secs": 900, "shrink_secs": 30}
PROPS = {
    "C01": {"level": "exploration", "engines": "S", "quick": DEFAULT_Q, "thorough": DEFAULT_T, "rule": GEN_RULE, "assumptions": []},
    "C04": {"level": "exploration", "engines": "S", "quick": DEFAULT_Q, "thorough": DEFAULT_T, "rule": GEN_RULE, "assumptions": ["assertions on accounts other than assets/liabilities are not generated (the property is silent)"]},
    "C05": {"level": "exploration", "engines": "S", "quick": {"cases": 900, "secs": 45, "shrink_secs": 10}, "thorough": DEFAULT_T, "rule": GEN_RULE, "assumptions": ["map iteration order is held equal (per-content mode, same seed) between the layouts compared; run-to-run determinism is C06"]},
    "C09": {"level": "exploration", "engines": "S", "quick": {"cases": 2400, "secs": 45, "shrink_secs": 10}, "thorough": DEFAULT_T, "rule": GEN_RULE, "assumptions": []},
    "C19": {"level": "exploration", "engines": "SR", "quick": {"cases": 2400, "secs": 45, "shrink_secs": 10}, "thorough": DEFAULT_T, "rule": GEN_RULE, "assumptions": []},
    "C14": {"level": "fault_enumeration", "engines": "S", "quick": {"cases": 2240, "secs": 50, "shrink_secs": 8}, "thorough": DEFAULT_T,
            "rule": GEN_RULE + "; per workload the fault-free run is traced and every read operation (ReadFile/Open/Read) is failed in turn with ENOENT, EACCES, EISDIR, EIO, a truncated and a bit-flipped result; include graphs (self, 2- and 3-cycles, diamond, missing, directory), flag faults, byte soup and edge inputs are separate sub-checks", "assumptions": ["one fault per run", "step budget 400000 / task budget 2000 (400 in the include-graph sub-check) stand for 'does not terminate'"]},
    "C18": {"level": "fault_enumeration", "engines": "SX", "quick": {"cases": 300, "secs": 50, "shrink_secs": 8}, "thorough": DEFAULT_T,
            "rule": "workloads: knut format on one file, on 2-4 files (parseable, unparseable, mixed; worker count varied), in an unwritable directory, and knut infer --inplace (training file separate or identical to the target); per workload the fault-free run is traced, then every file-system operation is failed with every applicable errno, every byte offset of every payload write (all offsets up to 700 bytes, 68 drawn offsets above) is cut short with ENOSPC, and a crash is placed before every operation and after the last, with every legal durable image enumerated (directory operations persist in order, any suffix may be lost; data is durable only after fsync, any prefix of unsynced bytes may persist); a case is non-trivial when the fault-free run changes at least one file; sub-check real-fsize (engine X, corroboration only): the shipped binary formats a real file under prlimit --fsize=k for 25 values of k",
            "assumptions": ["crash model: ordered metadata, data durable after fsync (ext4 data=ordered-like); one fault per run", "exit status after a fault belongs to C14 and is not judged here", "fetch.writeFile is not exercised (no network)"]},
    "C12": {"level": "exploration", "engines": "S", "quick": {"cases": 12000, "secs": 45, "shrink_secs": 8}, "thorough": DEFAULT_T,
            "rule": "price graphs over 2-6 commodities: trees, graphs with alternative paths and cycles, possibly disconnected, with redeclarations over 6 days, inverse declarations, 1/3-like reciprocals and (sub-check zero-price) a zero price; every valuation commodity; each graph is normalised at the library API of the instrumented price package under 6 map-order permutations and once through balance -v; distinct by the hash of the declarations and the valuation commodity",
            "assumptions": ["two different prices for one pair on one day are excluded (ambiguous by construction)", "the per-step truncation is applied from the valuation commodity outwards, as the statement says"]},
    "C03": {"level": "exploration", "engines": "S", "quick": {"cases": 6000, "secs": 45, "shrink_secs": 10}, "thorough": DEFAULT_T, "rule": GEN_RULE + "; price histories are tree-shaped (a unique derivation per commodity and day), sparse or daily, direct, inverse and chained; a fifth of the journals leave a commodity without a price before its first use",
            "assumptions": ["tolerance per cell: 1e-8 per truncating step that contributes (postings plus revaluation days)", "windows start at the first booking and --close=false (with a later --from the report shows changes only, which the statement's 'positions' does not describe)", "-m rules match asset/liability accounts only"]},
    "C20": {"level": "exploration", "engines": "S", "quick": {"cases": 6000, "secs": 45, "shrink_secs": 10}, "thorough": DEFAULT_T, "rule": GEN_RULE + "; sub-checks: weights (and weights with a universe file and -m mappings) against balance -v -s . on the same partition; returns prints one line per period of that partition; closed-form journals: constant prices with external flows only (0.0%), initial purchases followed by price changes only (end/start - 1)",
            "assumptions": ["weights are compared to 1e-6, returns to the printed precision (0.06 percentage points)", "weights are compared with the balance on windows that start at the first booking: with a later --from balance -v shows changes inside the window, not holdings"]},
    "C16": {"level": "exploration", "engines": "S", "quick": {"cases": 6000, "secs": 45, "shrink_secs": 10}, "thorough": DEFAULT_T, "rule": GEN_RULE + "; tree-shaped price histories, every (ASCII-named) valuation commodity",
            "assumptions": ["commodity names are ASCII letters (transcode rewrites other characters for beancount)"]},
    "C15": {"level": "exploration", "engines": "S", "quick": {"cases": 6000, "secs": 45, "shrink_secs": 10}, "thorough": DEFAULT_T,
            "rule": "training journals (empty, comments only, without transactions, one account pair, ties by construction, rich; optionally spread over an include tree) x target journals (placeholder on the credit side, the debit side, both, several per transaction, none; irregular spacing, comments) x placeholder names; each case runs infer under 6 schedules/map orders, once with --inplace, and formats the target with knut's own formatter as the comparison base",
            "assumptions": ["a candidate is an account of a training booking that does not itself involve the placeholder"]},
    "C02": {"level": "exploration", "engines": "S", "quick": DEFAULT_Q, "thorough": DEFAULT_T, "rule": GEN_RULE, "assumptions": []},
    "C06": {
        "level": "exploration",
        "engines": "S",
        "quick": {"cases": 1950, "secs": 50, "shrink_secs": 10},
        "thorough": {"cases": 0, "secs": 900, "shrink_secs": 30},
        "rule": GEN_RULE,
        "assumptions": ["every permutation of a map iteration is a legal execution (Go spec), although today's runtime produces only a subset",
                        "stderr is not part of the property (stdout and exit status are)"],
    },
}


LEVEL_TEXT = {
    "C01": "Exploration: generated accepted journals x valuation commodities x window/interval/last/diff/close combinations are run through the real balance command under sampled schedules and map orders; the Delta row of every report must be zero and the totals must be the column sums. Conservation is robust against scheduling, so most of the deciding power is workload x oracle; the level is sampling, not proof.",
    "C02": "Exploration: every cell of the unvalued report (text, --digits 8) is compared with an independent ledger computation (RefLedger: window, alignment, closing, --diff, filters, -m level:suffix, --remap, hidden accounts) under sampled schedules and map orders; row set, section and totals are checked too.",
    "C03": "Exploration: A/L values, mirrored revaluation gains and booking-day values of every row and column are compared with RefValuation (prices by the rule C12 states, tolerance 1e-8 per truncating step); the command must fail iff a needed price is missing.",
    "C04": "Exploration: the verdict of check (and balance/print) is compared with RefCheck, an independent lifecycle model, on valid journals and single-defect mutants spread over include trees, under sampled arrival orders; the diagnostic must name an offending directive.",
    "C05": "Exploration (metamorphic): the canonical single-file chronological layout against permuted/re-split layouts under different loader schedules with the map order held equal: identical verdict, byte-identical balance for a battery of 6-8 flag sets, print identical up to order inside (date, kind) groups.",
    "C06": "Exploration: one input and argv, 6-10 runs under different scheduler seeds, biases, map-order modes/seeds, lock-yield policies and worker counts: stdout and exit status must be identical (balance, print, check --write, transcode, portfolio weights/returns, infer, importers).",
    "C09": "Exploration: print output must be accepted, printing it again must reproduce it byte for byte, and a battery of balance reports must equal those of the original, for every output the concurrent loader can produce (sampled schedules).",
    "C12": "Exploration: price graphs (trees, alternative paths, cycles, disconnected, redeclarations, inverse, zero) normalised at the library API of the instrumented price package under permuted map orders and through balance -v; results must be 1 for V, the latest direct declaration if one exists, otherwise a chain product of latest declarations; unconnected commodities must have no price.",
    "C14": "Fault enumeration for read faults (per workload every read operation x ENOENT/EACCES/EISDIR/EIO/truncated/bit-flipped is injected) plus sampled include graphs (self, cycles, diamond, missing), flag faults, byte soup and edge inputs; oracle: terminates within budgets, exit 0 or non-zero with a diagnostic, no panic or deadlock, stdout empty when a report command fails, an error in any file fails the command.",
    "C18": "Fault enumeration: per workload every file-system operation of the real natefinch/atomic write path (instrumented copy) is failed with every applicable errno, every byte offset of the payload write is cut short, and a crash is placed before every operation with every legal durable image enumerated; each target must hold exactly its old or exactly its new bytes.",
    "C15": "Exploration: the output of infer is compared token by token with knut format of the target: only placeholder occurrences may change, each replacement must occur in the training journal and differ from the other account of its booking, without a candidate the booking stays; the output must parse, be identical under 6 schedules and map orders, and --inplace must write the same bytes.",
    "C16": "Exploration: the beancount text is read back by a line-based reader: every transaction sums to zero in V, every posting's account is open on its date and not closed before, entries are chronological, and the multiset of transactions equals the journal's bookings (accruals expanded) plus the value adjustments predicted from the reference price model.",
    "C20": "Exploration: weights (plain, and with a universe file and -m mappings) are compared with balance -v -s . on the same partition (commodity share, group = sum of members, top level = 100%); returns must print one line per period of that partition, 0.0% for constant prices with external flows only, end/start - 1 for periods without flows.",
    "C19": "Exploration: (a) no deadlock or hang, (b) loaded-directive census equals the union of the files, (c) failing stages stop everything and the genuine error is reported, all under the seeded serialising scheduler (engine S); (d) no data race under the race detector with seeded perturbation (engine R); (e) the shared registries are linearizable interning tables (porcupine over histories recorded under the scheduler at lock granularity).",
}

NOT_APPLICABLE = [
    {"property_id": "C07", "reason": "scanner/parser are pure functions of a byte string: no schedule, clock, fault or iteration order for a simulator to vary (truncated and bit-flipped reads in C14 do run the parser on damaged input, but the range invariants are not decided)"},
    {"property_id": "C08", "reason": "printer.Format is a pure text-to-text function of the parsed tree; the only fault-bearing clause (an unparseable file stays untouched, other files unaffected) is decided under C18"},
    {"property_id": "C10", "reason": "transaction.expand is sequential arithmetic on one transaction; its one known defect (equity legs dropped) was found through C02's reference and fixed"},
    {"property_id": "C11", "reason": "date.NewPartition/Align are pure calendar arithmetic over given windows; nothing for a scheduler, clock or disk to vary"},
    {"property_id": "C13", "reason": "importers are single-threaded conversions of well-formed statements; the only nondeterminism among them (revolut2 assertion order) is exercised under C06's import sub-check"},
    {"property_id": "C17", "reason": "table rendering is pure formatting arithmetic on a finished table"},
]
