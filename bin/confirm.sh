#!/bin/bash
# bin/confirm.sh <worktree> <mN> [demo command...]
# Confirms a seeded change in the sub-agent's own scratch worktree: with the patch
# the project builds, the existing suite passes and the demonstration fails; without
# it the demonstration passes.
export GOFLAGS=-mod=mod GOPROXY=off GOSUMDB=off GOTOOLCHAIN=local
WT=$1; M=$2; shift 2
DEMO=("$@"); [ ${#DEMO[@]} -eq 0 ] && DEMO=(bash seeded/$M/demo.sh)
cd $WT || exit 2
git checkout -q -- . ; git status --short | grep -v '^??' | grep -q . && { echo "worktree dirty"; exit 2; }
git apply seeded/$M/patch.diff || { echo "CONFIRM: patch does not apply"; exit 1; }
go build ./... || { echo "CONFIRM: build fails with patch"; git apply -R seeded/$M/patch.diff; exit 1; }
if go test -vet=off -count=1 ./... > /tmp/confirm.$$.log 2>&1; then echo "CONFIRM: suite passes with patch"; else echo "CONFIRM: SUITE FAILS with patch"; grep -v "^ok\|no test files" /tmp/confirm.$$.log | head; fi
"${DEMO[@]}" > /tmp/confirm.$$.demo1 2>&1; rc1=$?
git apply -R seeded/$M/patch.diff
"${DEMO[@]}" > /tmp/confirm.$$.demo2 2>&1; rc2=$?
echo "CONFIRM: demo with patch rc=$rc1, without patch rc=$rc2"
[ $rc1 -ne 0 ] && [ $rc2 -eq 0 ] && echo "CONFIRM: OK" || { echo "CONFIRM: NOT AS CLAIMED"; tail -5 /tmp/confirm.$$.demo1; echo ---; tail -5 /tmp/confirm.$$.demo2; }
rm -f /tmp/confirm.$$.*
git status --short | grep -v '^??'
