#!/bin/bash
# bin/final.sh: regenerates the committed evidence on the unchanged tree: the quick tier of every claimed check
# (seed 1, kept under evidence/quick/), then the thorough tier (VERIF_SEED, default 8) of all of them side by side
# (the five core and fault-enumerating checks with 2 workers, the others with 1: a time-boxed session; bin/check <ID>
# thorough alone uses 16 workers). Output: .cache/final-run3.log
cd "$(dirname "$0")/.."
LOG=.cache/final-run3.log; : > $LOG
ALL="C01 C02 C03 C04 C05 C06 C09 C12 C14 C15 C16 C18 C19 C20"
bin/build.sh SRX > /dev/null || { echo BUILD-FAILED >> $LOG; exit 2; }
mkdir -p evidence/quick
for p in $ALL; do
  VERIF_SEED=1 bin/check $p quick 2>&1 | grep -v "^  " | tail -3 >> $LOG
  cp evidence/$p.json evidence/quick/$p.json
done
echo QUICK-DONE >> $LOG
for p in $ALL; do
  w=1; case $p in C05|C06|C14|C18|C19) w=2;; esac
  ( VERIF_SEED=${VERIF_SEED:-8} VERIF_WORKERS=$w bin/check $p thorough 2>&1 | grep -v "^  " | tail -3 >> $LOG ) &
done
wait
echo FINAL-RUN-DONE >> $LOG
