#!/bin/bash
# bin/mutant.sh <dir with patch.diff> <property ids...>
# Applies the seeded change to /repo, runs the named checks (quick tier), records
# what they report, and undoes the change.
D=$1; shift
cd /repo && git status --short | grep -q . && { echo "/repo is not clean"; exit 2; }
git -C /repo apply "$D/patch.diff" || { echo "patch does not apply"; exit 2; }
OUT="$D/check_results.txt"; : > "$OUT"
export VERIF_EVIDENCE_DIR=/tmp/mutant-evidence.$$   # evidence of runs on a changed tree is not evidence
for P in "$@"; do
  ( cd /verif && timeout 900 bin/check $P ${TIER:-quick} ) > /tmp/mutant.$$.log 2>&1
  rc=$?
  echo "== $P exit=$rc" | tee -a "$OUT"
  grep -A1 "^VIOLATION\|^KNOWN-FINDING\|^INFRA-ERROR\|BUILD-ERROR\|instrumentation failed" /tmp/mutant.$$.log | cut -c1-400 | head -12 | tee -a "$OUT"
  tail -1 /tmp/mutant.$$.log | cut -c1-250 >> "$OUT"
done
rm -f /tmp/mutant.$$.log; rm -rf /tmp/mutant-evidence.$$
git -C /repo apply -R "$D/patch.diff"
git -C /repo status --short | grep -q . && { echo "WARNING: /repo not clean after revert"; git -C /repo status --short; }
rm -f /verif/replays/*.json
exit 0
