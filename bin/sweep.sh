#!/bin/bash
# Re-runs every seeded change against the checks named in seeded/PROPS.txt and
# prints one line per change: which checks report a violation.
cd "$(dirname "$0")/.."
while read id props; do
  [ -z "$id" ] && continue
  bin/mutant.sh "$PWD/seeded/$id" $props > /dev/null 2>&1
  caught=$(grep -o "^== C[0-9]* exit=1" seeded/$id/check_results.txt | awk '{print $2}' | tr '\n' ' ')
  other=$(grep "^== C[0-9]* exit=[02]" seeded/$id/check_results.txt | awk '{print $2":"$3}' | tr '\n' ' ')
  echo "$id caught_by: ${caught:-none} | not: $other"
done < seeded/PROPS.txt
