#!/usr/bin/env python3
"""Regenerates seeded/README.md and the 'verif' block of each seeded/<id>/meta.json from the
recorded check results (seeded/<id>/check_results.txt, written by bin/mutant.sh)."""
import json, os, re, glob

ROOT = os.path.dirname(os.path.dirname(os.path.abspath(__file__)))

# what had to change in the checks before a seeded change was caught (empty: caught as the checks stood)
NOTES = {
 "C18-m1": "missed at first: simfs had no symbolic links. Added symlink support to simfs (Lstat/Readlink/Symlink, rename-over-link) and the C18 workloads format-symlink / infer-symlink; then caught (torn-file).",
 "C18-m2": "at first the instrumenter refused sync.Pool (exit 2, no verdict). Added a deterministic simrt.Pool (LIFO free list) and rewrote sync.Pool to it; then caught by the multi-file workload (torn-file:mixed on another target).",
 "C05-m1": "at first the simulator stopped with an infrastructure error: two distinct *Commodity objects with one name broke the canonical map-key order. Keys that render alike now keep Go's relative order (counted by a probe, confirmation retried); then caught by C05, C06 and C19 (incl. the porcupine registry check).",
 "C06-m2": "missed at first: no workload had sibling accounts with exactly equal totals reached by different float sums. Added the balance-ties sub-check; then caught.",
 "C14-m2": "missed at first: failing journals were short, so a 4 KiB buffered writer never flushed before the error. Added the late-failure sub-check (60-140 transactions, the only defect on the last day, every report command); then caught (stdout-on-failure).",
 "C16-m1": "missed at first: the generator re-opened closed accounts but never used them again. The generator now books on re-opened accounts; then caught (posting-to-unopened-account).",
 "C20-m1": "missed at first: -m rules in the weights sub-check always matched every commodity. Rules now match subsets, and the oracle compares every node with the sum of the commodities at or below it; then caught (group-not-sum-of-members).",
 "C15-m1": "missed at first: targets never repeated a training booking token for token (the pruning bug needs evidence exactly 0). Added recurring-transaction targets; then caught, also by C06's infer sub-check.",
 "C20-m2": "the sub-agent's patch no longer applied after fix 4e6a6b3 touched the same function; rebased by hand (orig/patch.diff is the original). Caught by the closed-form return check under --last.",
 "C12-m2": "patch rebased (import hunk) after fix 281999b; orig/patch.diff is the original. Caught as the checks stood.",
 "C18-w3m2": "first reported as a deadlock: the change sleeps between retries (time.Sleep on the fake clock) and the scheduler did not let simulated time run. The scheduler now sleeps on the bubble's clock when nothing is enabled; then caught for the right reason (torn-file:mixed).",
 "C06-w3m2": "missed at first: C06 had only tree-shaped price histories. Added the price-paths sub-check (C12's graph generator through balance -v under several map orders); then caught.",
 "C19-w3m2": "missed at first: no journal was large enough (the change recycles a batch above 500 directives). Added census-large (520-900 directives over 5-9 files) and large journals for the race engine; then caught by engine S (status-depends-on-schedule / lost directives) and engine R (data race). Confirmation of engine-R findings now retries up to 12 fresh replays.",
 "C04-w4m1": "missed at first: accounts closed at zero had never held anything, and re-opened accounts were never closed again. The generator now gives closed accounts a first life (booked, emptied), books the same commodity after re-opening, optionally empties and closes again; new mutation 'close-reopened-with-position'; then caught (spurious-acceptance).",
 "C09-w4m1": "missed at first: C09 never had two same-day declarations for one pair. Added roundtrip-price-conflict (same or opposite direction, inconsistent values); then caught (report-differs).",
 "C09-w4m2": "missed at first: no description had leading/trailing blanks or a line break. Added ' Padded', 'Trailing ', 'two  spaces' and a multi-line description to the pool (and fixed my own readers for them); then caught (print-not-idempotent).",
 "C12-w4m1": "missed at first: prices had 4 decimals, so a flipped redeclaration could never equal the stored 8-decimal reciprocal. Price directives can now carry an exact price string; C12 draws such redeclarations; then caught.",
 "C15-w4m2": "missed at first: every target booking shared at least the commodity with the training data. Added bookings with unseen words, commodity, amount and counter-account; then caught (placeholder-kept-despite-candidates).",
 "C16-w4m2": "missed at first: every generated account segment started with a capital letter. Added lower-case segments; then caught (posting-to-unopened-account).",
 "C20-w4m1": "missed at first: no holding ever went to exactly zero on a day of its own. The weights sub-check now drains the valuation commodity's holdings one booking per day and reports well past it; then caught (wrong-weight).",
 "C05-w5m1": "missed at first: every generated file ended with a line break and had its includes at the top, so a file never ended inside an include directive. Layouts now also put includes last and drop the final newline; then caught by C05 (verdict/balance depend on layout) and C19 (census).",
 "C05-w5m2": "missed at first: include trees had at most 9 files, the change deadlocks only with 8 files in flight that each wait to start an include. Added WideLayout (root with 8-14 children that each include 1-2 files) to C05 and C19; then caught (deadlock).",
 "C06-w5m2": "missed at first: universe files never listed a commodity twice. The weights-ties workload now does at some rate; then caught (different tables between runs).",
 "C14-w5m2": "missed at first: no workload passed --cpuprofile, and runtime/pprof could not run inside a bubble. pprof.StartCPUProfile/StopCPUProfile are now stubbed by the instrumenter, and the flags sub-check has must-fail argv variants (missing journal, with and without --cpuprofile); then caught (error-swallowed).",
 "C09-w6m2": "missed at first: no description contained a percent sign. Added '30% off' and 'discount 100%' to the pool; then caught (print-not-idempotent / printed journal rejected).",
 "C15-w6m2": "missed at first: infer's candidate accounts were ASCII only. Added Expenses:Büro and Expenses:Café to the training accounts; then caught (output-unparseable).",
 "C18-w6m2": "missed at first: C18 never ran a second command after a crash. Added crash-then-rerun (every crash image with leftovers is the starting point of an undisturbed run of the same command, and of a run after the journal was shortened; the result must equal that of a run without leftovers); simfs.CreateTemp now skips existing names like os.CreateTemp; then caught (rerun-after-crash-corrupts:edited).",
 "C20-w6m2": "caught by C06 at once; C20's own run first ended with exit 2 because the change produces two map keys that render alike (same instant, different time.Location), whose relative order is Go's own, so the replay did not reproduce. Such violations are now confirmed with up to 12 replays and dropped with a NOTE if they never reproduce; C20 then reports it (wrong-weight).",
 "C18-w7m2": "missed at first: C18's journals never had CRLF line ends. messy() now writes 20% of them with CRLF; then caught (torn-file:mixed).",
 "C19-w7m2": "missed at first: the change bounds the loader's group at 32 goroutines, which deadlocks only with more than 32 files each waiting to start an include. WideLayout now also draws very wide trees (root with 33-48 children that include further files) in C05, C06 and C19; then caught (deadlock).",
 "C03-w7m2": "missed at first: price days were drawn per commodity, so a day rarely had several quotes and a quote never repeated its known value. Quotes now share days across commodities and 30% repeat the previous value; then caught by C03 (stale value after an unchanged last quote).",
 "C09-w7m1": "missed at first: every journal was dated 2019 or later. One in 25 round-trip cases is now dated before the year 1000; then caught (printed journal rejected).",
 "C14-w7m2": "missed at first: every generated account had at least two segments. 4% of the accounts are now top-level ones ('Assets', 'Liabilities', ...); then caught by C14, C03 and C16 (panic).",
 "C05-w7m2": "C05 itself stays silent (the change is wrong in every order, so the verdict does not depend on order); caught by C04, whose oracle is the reference checker.",
 "C18-w8m1": "missed at first: every fault hit one operation only, so the retry after the unlink succeeded. C18 now also fails each kind of operation persistently from every operation on (simfs Fault.Sticky), and places a crash at every operation of the error-handling path after each single fault (fault-then-crash); then caught (target-missing:persistent).",
 "C01-w8m2": "missed by C01 at first (caught by C02): C01 drew no mappings at all, although -m with a level of at least 1 and --remap hide nothing. A third of C01's cases now draw them; then caught by C01 too (delta-nonzero).",
 "C12-w8m2": "missed at first: all price declarations were dated 2020. C12 now mixes in declarations dated 1000-1650 and 2270-2900; then caught (balance-value-not-a-chain-product).",
 "C06-w8m1": "missed at first: no portfolio had a total of exactly zero. weights-ties now has a long/short book in whole numbers whose total is zero for a while (weights +Inf, -Inf, NaN), with class names on either side of the others; then caught (line-order).",
 "C20-w8m1": "missed at first: strconv parses 'NaN', and NaN compared false against every tolerance; no portfolio ever had a negative net value. The oracles are now NaN-safe and returns-noflows draws leveraged books; then caught (wrong-return: NaN%).",
 "C20-w8m2": "missed at first: columns whose balance total is zero were skipped, and only the valuation commodity was ever drained. The weights sub-check now liquidates whole portfolios at some rate and demands that a date without any holding shows no weight; then caught (weight-without-holdings).",
 "C03-w8m2": "missed by C03 at first (caught by C19's registry linearizability check): C03 never passed --remap. 15% of C03's cases now do; then caught by C03 too (expected-row-missing).",
 "C02-w9m1": "missed at first: at most one --account and one --commodity filter were drawn. Up to three of a kind are drawn now, some with an inline (?i) flag, in either position; then caught (unexpected-row).",
 "C18-w9m1": "at first no verdict (exit 2): the instrumenter did not know conc/iter.MapErr. IterMapErr and IterForEachIdx were added to the run-time; then caught (unparseable-file-modified).",
 "C18-w9m2": "no verdict from the simulator: the change writes through golang.org/x/sys/unix (O_TMPFILE, linkat, raw write), which bypasses the simulated file system; the instrumenter refuses such code instead of letting it act on the real file system (a first evaluation had produced a misleading diagnosis). Added a fallback for exactly this situation: when engine S cannot be built, C18 runs engine X alone (bin/realfsize.py: the shipped binary under prlimit --fsize=k for every k up to 400 and drawn k above, format on one and two files, infer --inplace); then caught (real:torn-file at k=1).",
 "C04-w9m2": "at first no verdict (exit 2): sync.Map was not modelled. simrt.SyncMap (a plain map whose operations are scheduling points, Range in seeded order) replaces it; then still missed, because no layout included a file twice. C04 now moves prices/assertions into a file that two files include (diamond) in 15% of its cases; then caught.",
 "C05-w9m2": "missed at first: every generated file had a unique name. 30% of the layouts now reuse a few file names (prices.knut, transactions.knut, accounts.knut, main.knut) across directories; then caught by C05 (verdict-depends-on-layout) and C19.",
 "C14-w9m2": "at first no verdict (exit 2): os.Stdin was not modelled. Standard input of a simulated run is now an empty stream; the include-graph sub-check got the variant missing-odd (journal named by a relative path, missing include named '-', '--', '~', ...); then caught (error-swallowed).",
 "C16-w9m2": "missed at first: no negative price was ever quoted. A fifth of C16's cases (and a seventh of C03's) now draw 15% (10%) negative quotes; then caught (transaction does not sum to zero).",
 "C09-w9m1": "missed at first: printed journals were far below 32 KiB. One in 40 round-trip cases now has 300-700 transactions with multi-byte characters in accounts and descriptions; then caught (printed-journal-rejected).",
 "C09-w9m2": "C09 stays silent (its runs use one schedule per case); caught by C06's price-conflict sub-check, which compares runs of one input.",
 "C05-w9m1": "C05 stays silent at the quick budget; caught by C19's race engine (data race in directives.Date.Parse).",
 "C12-w10m2": "missed at first: no quote had more than 8 decimals (and my reference compared a direct quote untruncated). C12 now draws quotes such as 0.000000012, 0.0000000049 and 12.3456789012345, and the reference truncates the single step; then caught (direct-declaration-ignored).",
 "C15-w10m1": "missed at first: descriptions had a handful of words. 6% of the target transactions now carry a remittance text of 150-900 unseen words; then caught (placeholder-kept-despite-candidates).",
 "C06-w10m1": "missed at first: no two sibling names differed only in a leading zero. 'A01' joined 'A1' in the segment pool; then caught (balance-valued:line-order).",
 "C06-w10m2": "missed at first: no two commodities differed only in case. 'usd' joined 'USD' in the commodity pool; then caught by C06, C05 and C02.",
 "C03-w10m1": "missed at first: accounts were closed only at the end of the journal, and no account name was a string prefix of a sibling's. 12% of the journals now open and early-close an unused account named like the parent of, or one letter shorter than, an account that holds positions; then caught by C03 and C16.",
 "C01-w10m1": "C01 stays silent: under the serialising scheduler an unwaited worker values a whole chunk in one step, so both postings of a pair are valued or neither, and Delta stays zero. Missed by C19 at first too (no day had 256 transactions); the race engine's large journals now put most bookings on one day in half of the cases; then caught by C19 (data race in valuateDay).",
 "C18-w11m2": "missed at first: infer --inplace always succeeded in the fault-free run. A fifth of the infer cases now fail before anything is written (target that does not parse, training journal with a missing include); a failing infer must leave its target bit-identical; then caught (failed-command-modified-file).",
 "C15-w11m2": "C15 stays silent: under the serialising scheduler a worker handles a booking in one step, so the shared scratch buffer is never seen half-written. Missed by C19 at first too (infer was not among the race engine's commands, and no target had 512 directives); the race engine now also runs infer on targets of 520-900 bookings; then caught by C19 (data race in bayes).",
 "C04-w11m1": "missed at first: no journal had directives on 31 December of a leap year and on the following 1 January. Two anchors at the turn of 2020/21 and 2024/25 were added; then caught by C04 (spurious rejection) and C02 (wrong cell at 2020-12-31).",
 "C06-w11m1": "missed at first: the import sub-check passed one statement per run. revolut2 now also gets two or three statements (one per currency) with bookings on the same days; then caught (import:line-order).",
 "C06-w11m2": "missed at first: two files with the same include spelling, the same name and a same-day quote at the same offset did not occur. price-conflict now has a twin layout (a/index.knut and b/index.knut each include \"prices.knut\"); then caught (price-conflict:content).",
 "C14-w11m2": "at first no verdict (exit 2): os.SameFile was not modelled; now it is (inode identity). infer -t <journal> <journal> joined C14's command set, so that include-graph errors are also tried with infer training on its target; then caught (error-swallowed:include-cycle2).",
 "C03-w11m1": "missed at first: C03 always passed --close=false. The valuation reference now models period closing (income, expense and mirrored income rows restart at each period start, the previous total moves to Equity:Equity), and half of C03's cases leave closing on; then caught (wrong-value on Equity:Equity).",
 "C09-w11m1": "caught because the generator had just learnt to spell the root path with a redundant element (./ or zz/../) for C09, an addition made after reading this change's description; recorded as after strengthening.",
 "C14-w11m1": "caught after a Cyrillic and a long umlaut segment joined the non-ASCII segment pool (added after reading this change's description); before, 'Übrig' and '日本' were never the widest cell of their column.",
 "C01-w11m2": "missed at first: quantities had at most 4 decimals. A twentieth of C01's cases now append 5-14 further digits to every booked quantity (no assertions or closes on them) and report with --digits 20; then caught (Delta of 2e-10).",
 "C05-w11m1": "at first no verdict (exit 2): os.DirFS was not modelled; now it is (an fs.FS over simfs with fs.ValidPath like the real one). Then still missed: the root file was always in the top directory, so no include climbed above it. A fifth of the layouts now put the root file into books/; then caught by C05 and C04.",
 "C12-w11m1": "C12 itself stays silent (its price graphs had no negative quote); caught by C03, whose journals draw negative quotes since the ninth wave (valuation fails although every price exists).",
 "C19-w11m2": "caught by engine R as a hang of the race-instrumented binary (a copied, write-locked RWMutex). Engine S cannot see it: its lock table is keyed by the mutex's address, and a copy is a fresh, free lock there.",
 "C03-w12m1": "missed at first: C03 passed no --account filter. The valuation reference now filters each posting by its own account (position, mirrored income account, counter-account; Equity:Equity carries the closed totals of all accounts), and 15% of C03's cases pass such a filter; then caught (expected-row-missing).",
 "C04-w12m1": "missed at first: accrual amounts were large. A fifth of the inexact accruals are now 'dust' (0.1-3.0 units daily over 40-150 days, so a period's share truncates to 0.0), and C04 draws inexact accruals at all; then caught.",
 "C05-w12m1": "missed at first: no file name contained a shell-pattern character. '2020[q1].knut', 'what?.knut' and 'all*.knut' joined the reusable file names; then caught by C05 and C04.",
 "C06-w12m2": "C06 stays silent (under the serialising scheduler the in-place sort is one step); missed by C19 at first because print and check were not among the race engine's commands; they are now; then caught by C19 (data race in compare.Sort).",
 "C09-w12m1": "missed at first: no description contained a backslash. Three were added (one at the end, two at the end, two in the middle plus backslash-n); then caught by C09 (printed journal rejected) and C04.",
 "C14-w12m1": "missed at first: C14 never passed a universe file of an unexpected shape. Nine were added to the flags sub-check (numbers, booleans and null as members, a list or a scalar where a class is expected, nested classes, empty, garbage); then caught (panic).",
 "C14-w12m2": "missed at first: no flag carried the largest integer. -m with 9223372036854775807 as level, suffix or both, and --last 2147483647 joined the flags sub-check; then caught (panic: makeslice).",
 "C15-w12m1": "missed at first: targets were never already formatted. C15 now also runs infer on the formatted target (same rules, same result as on the target as written); then caught (placeholder-kept-despite-candidates:formatted-target).",
 "C15-w12m2": "missed at first: no three candidates had scores within 1e-9 of each other. A dedicated workload (counts 1001.1008/1229, 991.1019/1230, 986.1025/1231: scores 8e-10 apart, names in the reverse order of the scores) was added; then caught (choice-differs-between-runs).",
 "C16-w12m2": "missed at first: no journal had more than 128 days that carry directives. One C16 case in 150 now has 300-600 days of daily quotes; then caught (transactions lost).",
 "C19-w12m2": "missed at first: only one stage failed per run. fail-double (a file that cannot be converted into the model plus a syntax error at the very end of another) was added; then caught (deadlock).",
 "C01-w12m1": "C01 stays silent (an append is one step under the serialising scheduler); caught by C19's race engine (data race in sumTree).",
 "C12-w12m2": "C12 stays silent (library level, one goroutine); caught by C19's race engine (data race in price.Multiply).",
 "C01-w13m2": "missed at first: C01 read text tables only. A tenth of its cases now also run --csv with an explicit --digits 0..3 and read the Delta lines; then caught (Delta 0.1 in the CSV report).",
 "C02-w13m2": "missed at first (recorded as a gap after the thirteenth wave): the change needs a journal that never mentions Equity:Equity (the --account filter is resolved before period closing creates that account), and every generated journal opened and booked on Equity:Equity. 15% of C02's journals now have their counter-account renamed to Equity:Opening after the flags were drawn, so that closing alone creates Equity:Equity; the reference already modelled that row; then caught (wrong-cell on Equity:Equity).",
 "C06-w13m2": "missed at first: no two same-day transactions differed only in their commodity. The generator now adds near-duplicates (same description, accounts and quantities; another commodity, or a @performance list that extends the original's) to 6% of the transactions; then caught (block-order).",
 "C12-w13m2": "missed at first: the zero quote was always the last quote of its day. In half of the zero-price cases it now comes first and valid quotes follow; then caught (valuation-succeeds-without-price).",
 "C14-w13m1": "missed at first: no two same-day transactions had @performance lists of which one is a prefix of the other; the near-duplicates added for C06-w13m2 include them; then caught (panic: index out of range).",
 "C15-w13m2": "missed at first: training journals had no close directives. 30% now close one to four accounts that are booked on elsewhere in the training data; then caught (choice-differs-between-runs).",
 "C16-w13m2": "missed at first: the simulated 'today' was always years after the journal. A sixth of C16's cases now run on a day in the middle of the journal; then caught (transactions lost).",
 "C18-w13m1": "no verdict from the simulator (os.File.WriteAt is not modelled: engine S does not build); the engine-X fallback now also starts when engine S fails to build for any reason, and has a workload with an already formatted target whose placeholder is replaced by a name of the same length; then caught (real:torn-file under RLIMIT_FSIZE=57).",
 "C19-w13m2": "missed at first: the race engine only ran journals that load. 15% of its cases now end every file in a malformed directive; then caught (data race in parseRec).",
 "C19-w13m1": "C19 stays silent at the quick budget; caught by C14's late-failure sub-check (a failing stage reported as success).",
 "C20-w13m2": "missed at first: weights rules had a level of at least 1. 15% now have level 0 with a suffix of 1 or 2; then caught (top level sums to 0%).",
 "C03-w13m1": "C03 stays silent (one schedule per case: the report is wrong in the same way each time it is wrong); caught by C06 (balance-valued: different output between runs).",
 "C15-w14m2": "missed at first: every training journal with transactions knew at least two accounts. A new kind of training journal books inside one account only (transfers A -> A), so that for bookings on that account nothing is left to choose; my first oracle for it raised a false alarm on the unchanged tree (placeholder on both sides, one candidate: one side gets it, the other legitimately stays) and was corrected before it was committed; then caught (output-unparseable).",
 "C12-w14m2": "missed at first: C12 called NormalizedPrices.Valuate with one amount (7). It is now called with 7, 0, 0.00, -3.5, 1e-8 and -0.123456789: it must fail exactly when Price fails and otherwise equal amount x price truncated to 8 decimals; then caught (Price and Valuate disagree, amount 0).",
 "C20-w14m1": "missed at first: in the constant-price journals every transaction had one booking. 35% of the flow transactions now also carry a transfer between two portfolio accounts (either order); then caught (return-nonzero-without-price-change).",
 "C14-w14m1": "no verdict at first (exit 2 from the driver's watchdog after 800 s): the change computes without end inside one transition (a power of ten with two billion digits), which the step and task budgets cannot see. C14's workers now run under a CPU-time guard (150 s of process CPU inside one simulated run stand for 'does not terminate'; CPU time, so a loaded machine does not inflate it); then caught (does-not-terminate:cpu-budget), confirmed by replay under the same guard.",
 "C05-w14m1": "missed at first, by a fidelity gap of the instrumenter: the rewritten `for v := range ch` (and map range) declared the iteration variable inside the loop body, i.e. per iteration, while knut's go.mod (go 1.21) gives one variable shared by all iterations; a goroutine capturing it was therefore immune in the simulation. The instrumenter now reads the go directive and keeps one variable for all iterations when it is below 1.22; then caught by C05 (directive lost or duplicated) and C19 (census).",
 "C05-w14m2": "no verdict at first (exit 2): errgroup.TryGo was not a task-creation site for the instrumenter, so the function ran outside the scheduler. TryGo is wrapped like Go now; then C05 stays silent at the quick budget (its journals are accepted ones and single-defect mutants in narrow trees) and C19 reports it (failing include swallowed: status depends on the schedule).",
 "C16-w14m2": "missed at first: no run ever had a fault on standard output (reports were captured from an always-working stream). cmd.OutOrStdout() is now a fault point (the instrumenter wraps it): C16's stdout-fault sub-check fails every Write call of a ledger of several buffers in turn (short write with 1, 100 or all-but-one bytes accepted, EPIPE, ENOSPC; transient or for good) and demands that what was delivered is a prefix of the undisturbed ledger; then caught (stdout-not-a-prefix-after-write-fault: a fragment is sent twice).",
 "C14-w15m1": "missed at first: the only inverted accrual window of the edge sub-check crossed period boundaries. New edge input: a window that ends before it starts inside one period of its interval (every interval); then caught (panic: decimal division by 0).",
 "C14-w15m2": "missed at first, by a fidelity gap of the run-time: simrt.Close was no scheduling point, so the closing task always ran on to its next step (here context's cancel function, a synchronisation inside an uninstrumented library) before a receiver could see the closed channel. Every close is now followed by a scheduling point; infer with a missing include also runs under six further schedules; then caught (error-swallowed).",
 "C16-w15m1": "missed at first: same-day twins of a transaction always differed in something. A quarter of C16's journals now repeat one to three transactions verbatim (twice or three times); then caught (transaction-lost).",
 "C18-w15m2": "missed at first: format was given four files at most, the change hangs from the ninth failing file on. One format-n case in eight now passes 11-15 files of which all but one to three do not parse; then caught (deadlock).",
 "C05-m2": "caught by C05 and C04 as the checks stood when it arrived (recorded in check_results.txt). Since fix 281999b (which rewrote the code the change touches) the patch no longer applies to /repo; bin/sweep.sh and bin/mutant.sh leave the recorded result untouched when a patch does not apply, so later sweeps list the old result. Found by bin/sweep_par.sh in the follow-up session, which reports 'patch does not apply'.",
}
DROPPED = [
 "C04 (wave 7, first change): Builder.Build skips the day sort while days 'arrive in ascending order'; the same idea as C05-m2 (caught by C04, C05, C19).",
 "C19 (wave 7, first change) and C06 (wave 7, second change): lost re-check in commodity.Registry.Get; the same change as C05-m1 (both caught).",
 "C03 (wave 7, first change): Normalize marks commodities settled at dequeue; the same change as C12-m1 (caught by C12).",
 "C04 (wave 2, second change): Builder.Build skips the day sort; the same idea as C05-m2 and no longer applicable after fix 281999b.",
 "C06 (wave 3, first change): lost re-check in commodity.Registry.Get; the same change as C05-m1.",
 "C04 (wave 4, second change): lost re-check in commodity.Registry.Get; the same change as C05-m1.",
 "C16 (wave 4, first change): Builder.Build skips the day sort; the same change as C05-m2.",
 "C03 (wave 5, second change): Normalize marks commodities settled at dequeue; the same change as C12-m1.",
 "C06 (wave 5, first change): append(includedBy, file) in parseRec; the same change as C19-m2.",
 "C02 (wave 5, second change): Totals summed over leaf nodes only; the same idea as C01-m2.",
 "C12 (wave 6, first change): lost re-check in commodity.Registry.Get; the same change as C05-m1.",
 "C04 (wave 6, first change): append(includedBy, file) in parseRec; the same change as C19-m2.",
]

rows = []
for d in sorted(glob.glob(os.path.join(ROOT, "seeded", "*", ""))):
    name = os.path.basename(d.rstrip("/"))
    mp = os.path.join(d, "meta.json")
    if not os.path.exists(mp):
        continue
    m = json.load(open(mp))
    rp = os.path.join(d, "check_results.txt")
    res = open(rp).read() if os.path.exists(rp) else ""
    caught = [mm.group(1) for mm in re.finditer(r"== (C\d+) exit=1", res)]
    sigs = sorted(set(re.findall(r"^\s+([a-z][\w:.\-+]*): ", res, re.M)))
    m["verif"] = {
        "confirmed_by": "bin/confirm.sh in the sub-agent's scratch worktree: with the patch go build and the whole existing suite pass and the demonstration fails; without it the demonstration passes",
        "checks_run": "bin/mutant.sh (git -C /repo apply patch.diff; bin/check <property> quick; git -C /repo apply -R): see check_results.txt",
        "caught_by": caught,
        "signatures": sigs[:8],
        "note": NOTES.get(name, "caught by the checks as they stood when the change arrived"),
    }
    json.dump(m, open(mp, "w"), indent=1, ensure_ascii=False)
    summ = (m.get("summary") or "").replace("|", "/").replace("\n", " ")
    rows.append((name, m.get("property", name[:3]), summ[:150], ", ".join(caught) or "none", "after strengthening" if name in NOTES and ("missed at first" in NOTES[name] or "at first" in NOTES[name] or "first reported" in NOTES[name]) else "as they stood"))

with open(os.path.join(ROOT, "seeded", "README.md"), "w") as f:
    f.write("# Seeded breaking changes\n\nEach directory holds a change to sboehler/knut written by an independent sub-agent that saw only the text of one property: patch.diff, its demonstration, and meta.json (what it needs to manifest, how it was confirmed, which checks catch it, what had to be strengthened). None of these changes is committed to /repo. To re-run one: `bin/mutant.sh /verif/seeded/<id> <property ids>`; all: `bin/sweep.sh` (seeded/SWEEP.txt is its last output).\n\n")
    n_none = sum(1 for r in rows if r[3] == "none")
    n_after = sum(1 for r in rows if r[4] == "after strengthening" and r[3] != "none")
    f.write("%d changes kept; %d were caught by the checks as they stood when the change arrived, %d only after the checks were strengthened, %d not at all (see the note in each meta.json and DESIGN.md section 12).\n\n" % (len(rows), len(rows) - n_after - n_none, n_after, n_none))
    f.write("| id | property | change | caught by | checks |\n|---|---|---|---|---|\n")
    for r in rows:
        f.write("| %s | %s | %s | %s | %s |\n" % r)
    f.write("\nDropped as duplicates:\n\n")
    for x in DROPPED:
        f.write("* %s\n" % x)
print("seeded/README.md: %d changes" % len(rows))
