#!/bin/bash
# bin/benign_par.sh [checks...]: like benign.sh, but side by side and without touching /repo: every
# refactoring under /verif/benign is applied in a scratch worktree of /repo's HEAD (/tmp/bn-<id>, removed
# afterwards) and the named checks (default: all claimed ones) rebuild from there (KNUT_REPO).
# PAR refactorings at a time, VERIF_WORKERS workers per check. One line per refactoring.
cd "$(dirname "$0")/.."
CHECKS="${*:-C01 C02 C03 C04 C05 C06 C09 C12 C14 C15 C16 C18 C19 C20}"
export CHECKS KNUTSIM_KEEP_CACHE=1 VERIF_WORKERS=${VERIF_WORKERS:-3}
one() {
  id=$1; WT=/tmp/bn-$id
  git -C /repo worktree add -q --detach $WT HEAD 2>/dev/null || { echo "$id: worktree failed"; return; }
  if git -C $WT apply /verif/benign/$id/patch.diff; then
    OUT=/verif/benign/$id/check_results_par.txt; : > $OUT
    for Q in $CHECKS; do
      KNUT_REPO=$WT VERIF_EVIDENCE_DIR=/tmp/bn-evidence.$id timeout 900 bin/check $Q quick > /tmp/bn.$id.log 2>&1
      echo "== $Q exit=$?" >> $OUT
      grep -A1 "^VIOLATION\|^INFRA-ERROR\|BUILD-ERROR\|instrumentation failed" /tmp/bn.$id.log | cut -c1-300 | head -8 >> $OUT
    done
    bad=$(grep "^== C[0-9]* exit=[12]" $OUT | awk '{print $2":"$3}' | tr '\n' ' ')
    echo "$id alarms: ${bad:-none}"
  else
    echo "$id: patch does not apply"
  fi
  for h in $(grep -l "^$WT\$" .cache/*/repo.txt 2>/dev/null); do rm -rf "$(dirname $h)"; done
  rm -rf /tmp/bn-evidence.$id /tmp/bn.$id.log
  git -C /repo worktree remove --force $WT
}
export -f one
ls benign | grep -v BENIGN | grep -E "${BENIGN_IDS:-.}" | xargs -P ${PAR:-5} -I{} bash -c "one {}"
