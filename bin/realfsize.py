#!/usr/bin/env python3
"""Engine-X fallback for C18, used only when the instrumenter refuses the tree (code that writes
through raw system calls cannot run on the simulated file system): the shipped binary rewrites real
files in a scratch directory under a real RLIMIT_FSIZE of k bytes (prlimit) for every k up to a
few hundred and drawn k above, for `knut format` on one and on two files and for `knut infer
--inplace`. Afterwards every target must hold exactly its old or its new bytes and nothing else
may be left in the directory. Deterministic in (binary, seed); a case is (workload name, k).
"""
import os, random, shutil, subprocess, tempfile

TRAIN = """2020-01-01 open Assets:Bank
2020-01-01 open Expenses:Food
2020-01-01 open Expenses:Rent

2020-01-05 "Migros groceries"
Assets:Bank Expenses:Food 12.50 CHF

2020-01-06 "Landlord rent"
Assets:Bank Expenses:Rent 1500 CHF

"""

TRAIN2 = """2020-01-01 open Assets:Bank
2020-01-01 open Expenses:Car

2020-01-05 "Garage Meier service"
Assets:Bank Expenses:Car 480 CHF

2020-02-05 "Garage Meier tyres"
Assets:Bank Expenses:Car 620 CHF

"""

FORMATTED = """2021-03-01 "Garage Meier service"
Assets:Bank Expenses:TBD        510 CHF

2021-04-01 "Garage Meier tyres"
Assets:Bank Expenses:TBD        640 CHF

2021-05-01 "Garage Meier service"
Assets:Bank Expenses:TBD        515 CHF

"""

def messy(n, rnd):
    out = ["2020-01-01   open   Assets:Bank\n", "2020-01-01 open Expenses:Food\n", "\n", "# a comment that must survive\n"]
    for i in range(n):
        out.append('2020-%02d-%02d "Migros groceries %d"\n' % (1 + i % 12, 1 + i % 28, i))
        out.append("Assets:Bank%sExpenses:TBD%s%d.%02d   CHF\n\n" % (" " * rnd.randint(1, 9), " " * rnd.randint(1, 5), rnd.randint(1, 900), rnd.randint(0, 99)))
    return "".join(out)

def workloads(seed):
    rnd = random.Random(seed)
    return {
        "format-small": (["format", "a.knut"], {"a.knut": messy(3, rnd)}, ["a.knut"]),
        "format-large": (["format", "a.knut"], {"a.knut": messy(120, rnd)}, ["a.knut"]),
        "format-two": (["format", "a.knut", "b.knut"], {"a.knut": messy(4, rnd), "b.knut": messy(6, rnd)}, ["a.knut", "b.knut"]),
        "infer-inplace": (["infer", "-t", "train.knut", "--inplace", "a.knut"], {"a.knut": messy(5, rnd), "train.knut": TRAIN}, ["a.knut"]),
        # an already formatted target whose placeholder is replaced by a name of the same length
        "infer-samelen": (["infer", "-t", "train2.knut", "--inplace", "a.knut"], {"a.knut": FORMATTED, "train2.knut": TRAIN2}, ["a.knut"]),
    }

def _write(d, files):
    for fn in os.listdir(d):
        os.remove(os.path.join(d, fn))
    for n, c in files.items():
        with open(os.path.join(d, n), "w") as f:
            f.write(c)

def _read(d, names):
    out = {}
    for n in names:
        try:
            with open(os.path.join(d, n)) as f:
                out[n] = f.read()
        except FileNotFoundError:
            out[n] = None
    return out

def one(knut, d, argv, files, targets, new, k):
    _write(d, files)
    subprocess.run(["prlimit", "--fsize=%d" % k, knut] + argv, cwd=d, stdout=subprocess.DEVNULL, stderr=subprocess.DEVNULL, timeout=60)
    got = _read(d, targets)
    for t in targets:
        if got[t] is None:
            return "real:target-missing", "shipped binary under RLIMIT_FSIZE=%d: %s is gone" % (k, t)
        if got[t] != files[t] and got[t] != new[t]:
            return "real:torn-file", "shipped binary under RLIMIT_FSIZE=%d: %s holds neither its old nor its new contents (%d bytes; old %d, new %d)" % (k, t, len(got[t]), len(files[t]), len(new[t]))
    extra = sorted(set(os.listdir(d)) - set(files))
    if extra:
        return "real:leftover-temp-file", "shipped binary under RLIMIT_FSIZE=%d leaves %s behind" % (k, ", ".join(extra))
    return None

def explore(knut, seed, only=None):
    """Returns (violation or None, number of runs). violation = dict(signature, msg, workload, k)."""
    if not shutil.which("prlimit"):
        return None, 0
    base = "/dev/shm" if os.path.isdir("/dev/shm") else None
    d = tempfile.mkdtemp(prefix="knutx-", dir=base)
    runs = 0
    try:
        for name, (argv, files, targets) in workloads(seed).items():
            if only and only[0] != name:
                continue
            if name == "infer-samelen":
                # the target as knut's own formatter lays it out
                _write(d, files)
                subprocess.run([knut, "format"] + targets, cwd=d, stdout=subprocess.DEVNULL, stderr=subprocess.DEVNULL, timeout=60)
                files = dict(files)
                files.update({t: c for t, c in _read(d, targets).items() if c is not None})
            _write(d, files)
            r = subprocess.run([knut] + argv, cwd=d, stdout=subprocess.DEVNULL, stderr=subprocess.DEVNULL, timeout=60)
            new = _read(d, targets)
            if r.returncode != 0 or any(new[t] is None for t in targets) or all(new[t] == files[t] for t in targets):
                continue  # nothing to tear
            top = max(len(new[t]) for t in targets)
            rnd = random.Random(seed * 31 + len(name))
            ks = list(range(0, min(top, 400) + 2)) + [rnd.randint(0, top + 1) for _ in range(40)] + [top - 1, top, top + 1]
            if only:
                ks = [only[1]]
            for k in ks:
                runs += 1
                v = one(knut, d, argv, files, targets, new, max(0, k))
                if v:
                    return {"signature": v[0], "msg": v[1] + " (workload " + name + ")", "workload": name, "k": max(0, k), "argv": argv, "files": files}, runs
        return None, runs
    finally:
        shutil.rmtree(d, ignore_errors=True)
