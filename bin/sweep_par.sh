#!/bin/bash
# bin/sweep_par.sh [regex of seeded ids]: re-runs seeded changes against the checks that are recorded as catching
# them (seeded/<id>/check_results.txt; the property itself when none is recorded), side by side and without touching
# /repo: each change is applied in a scratch worktree /tmp/sw-<id> of /repo's HEAD (removed afterwards), the checks
# rebuild from there (KNUT_REPO). One line per change: "<id> caught_by: ..." or "<id> NOT CAUGHT".
cd "$(dirname "$0")/.."
export KNUTSIM_KEEP_CACHE=1 VERIF_WORKERS=${VERIF_WORKERS:-3}
one() {
  id=$1; WT=/tmp/sw-$id
  git -C /repo worktree add -q --detach $WT HEAD 2>/dev/null || { echo "$id: worktree failed"; return; }
  if git -C $WT apply /verif/seeded/$id/patch.diff 2>/dev/null; then
    props=$(grep -o "^== C[0-9]* exit=1" seeded/$id/check_results.txt 2>/dev/null | awk '{print $2}' | sort -u | tr '\n' ' ')
    [ -z "$props" ] && props=${id:0:3}
    caught=""
    for Q in $props; do
      KNUT_REPO=$WT VERIF_EVIDENCE_DIR=/tmp/sw-evidence.$id timeout 900 bin/check $Q quick > /tmp/sw.$id.log 2>&1
      rc=$?
      [ $rc = 1 ] && caught="$caught$Q "
      [ $rc = 2 ] && caught="$caught$Q:exit2 "
    done
    if echo "$caught" | grep -q "C[0-9][0-9] "; then echo "$id caught_by: $caught"; else echo "$id NOT CAUGHT ($caught; ran: $props)"; fi
  else
    echo "$id: patch does not apply"
  fi
  for h in $(grep -l "^$WT\$" .cache/*/repo.txt 2>/dev/null); do rm -rf "$(dirname $h)"; done
  rm -rf /tmp/sw-evidence.$id /tmp/sw.$id.log
  git -C /repo worktree remove --force $WT
}
export -f one
ls seeded | grep -v "README\|SWEEP" | grep -E "${1:-.}" | xargs -P ${PAR:-5} -I{} bash -c "one {}"
