#!/usr/bin/env python3
"""mkwave.py <wave-tag> <property ids...>: creates scratch worktrees /tmp/<tag>-<id> of /repo HEAD and prompt
files /tmp/agent_prompt_<tag>_<id>.txt for sub-agents that seed breaking changes. The prompt contains only the
property's text, the task, and one-line summaries of ideas already used for that property (so that new rounds
bring new ideas); nothing about the checks."""
import json, os, subprocess, sys, glob
tag = sys.argv[1]
ids = sys.argv[2:]
props = {json.loads(l)['id']: json.loads(l) for l in open('/verif/properties.jsonl')}
used = {}
for mp in glob.glob('/verif/seeded/*/meta.json'):
    m = json.load(open(mp))
    pid = os.path.basename(os.path.dirname(mp))[:3]
    used.setdefault(pid, []).append((m.get('summary') or '').strip().replace('\n', ' ')[:220])
    used.setdefault('*', []).append((pid, (m.get('summary') or '').strip().replace('\n', ' ')[:150]))
for pid in ids:
    wt = '/tmp/%s-%s' % (tag, pid)
    subprocess.run(['git', '-C', '/repo', 'worktree', 'add', '-q', wt, 'HEAD'], check=True)
    p = props[pid]
    ptxt = json.dumps({k: p[k] for k in ('id', 'title', 'statement', 'quantifier', 'why_tests_cant', 'anchors')}, indent=1)
    ideas = '\n'.join('  - ' + u for u in used.get(pid, []))
    ideas += '\nIdeas used for OTHER properties of knut (do not reuse these either, whatever property they were filed under):\n'
    ideas += '\n'.join('  - ' + u for q, u in sorted(used.get('*', [])) if q != pid)
    prompt = f"""You are working in a scratch git worktree of the Go project sboehler/knut (a plain-text double-entry accounting CLI) at {wt}. Work ONLY inside {wt} (never touch /repo or /verif, and do not read /verif). There is no network. Every shell call must first run:
  export GOFLAGS=-mod=mod GOPROXY=off GOSUMDB=off GOTOOLCHAIN=local
Build with `go build ./...`; the whole existing test suite runs with `go test -vet=off -count=1 ./...` (about 5 seconds). Journal syntax: see README.md and doc/example.knut; every transaction must be followed by a blank line.

Here is a semantic property of knut that is supposed to hold (JSON record):

{ptxt}

TASK. Produce TWO different, realistic changes to knut's source code (each the kind of bug a developer could plausibly introduce during a refactoring, optimisation or small feature) such that each change, applied alone: (1) BREAKS the property above, (2) still compiles, and (3) still passes the ENTIRE existing test suite unchanged. The changes must need something specific to manifest — a particular goroutine interleaving or map iteration order, a fault (I/O error, short write, crash/power loss) at a particular point, a multi-step sequence of operations, an unusual but legal input, a particular flag combination together with a particular shape of journal or include tree, or two cooperating sites that each look fine alone — NOT something that ordinary use would expose at once. The two changes should be in different places and of different kinds. This is a late round: many ideas have been used already, so be creative and do NOT repeat any of these:
{ideas}

For each change write a demonstration that FAILS (exit status 1) with the change applied and PASSES (exit status 0) without it, as an executable script {wt}/seeded/mI/run_demo.sh that takes no arguments, can be started from any directory, builds whatever it needs from the worktree's current state, and may loop if the breakage is schedule- or map-order dependent. Verify both directions yourself, and verify that `go build ./...` and `go test -vet=off -count=1 ./...` succeed with the change applied.

DELIVERABLES (inside {wt}/seeded/): for I in 1,2 a directory {wt}/seeded/mI/ containing patch.diff (`git diff` of knut's own source files only; must apply with `git apply` to a clean checkout of this worktree's HEAD), run_demo.sh plus any input files it needs, and meta.json with the fields: property (the id), summary (one or two sentences naming the changed function and the defect), what_it_needs_to_manifest, files_changed, demo_result_with_patch, demo_result_without_patch, tests_pass_with_patch. Keep Go files of a demonstration out of `go build ./...` / `go test ./...` (use a build tag or a .txt suffix). When you are done, leave the worktree's tracked files REVERTED to HEAD. Finish with a short summary of the two changes.
"""
    open('/tmp/agent_prompt_%s_%s.txt' % (tag, pid), 'w').write(prompt)
    print(pid, len(prompt), 'ideas excluded:', len(used.get(pid, [])))
