#!/bin/bash
# evalwave.sh <wave-tag> <property ids...>: for every /tmp/<tag>-<id>/seeded/mI: copy to /verif/seeded/<id>-<tag>mI,
# confirm it in the sub-agent's worktree (bin/confirm.sh with seeded/mI/run_demo.sh), run the checks named in
# /tmp/<tag>-props.txt (default: the property itself) and print one line per change.
TAG=$1; shift
cd /verif
for P in "$@"; do
  for N in m1 m2; do
    SRC=/tmp/$TAG-$P/seeded/$N
    [ -d "$SRC" ] || { echo "$P $N: no deliverable"; continue; }
    ID=$P-$TAG$N
    mkdir -p seeded/$ID && cp -r $SRC/. seeded/$ID/
    conf=$(bin/confirm.sh /tmp/$TAG-$P $N bash seeded/$N/run_demo.sh 2>&1 | grep CONFIRM | tail -1)
    props=$(grep "^$ID " /tmp/$TAG-props.txt 2>/dev/null | cut -d' ' -f2-); [ -z "$props" ] && props=$P
    bin/mutant.sh /verif/seeded/$ID $props > /dev/null 2>&1
    caught=$(grep -o "^== C[0-9]* exit=1" seeded/$ID/check_results.txt | awk '{print $2}' | tr '\n' ' ')
    other=$(grep "^== C[0-9]* exit=[02]" seeded/$ID/check_results.txt | awk '{print $2":"$3}' | tr '\n' ' ')
    sig=$(grep -A1 "^VIOLATION" seeded/$ID/check_results.txt | grep -v VIOLATION | head -1 | cut -c1-120)
    echo "$ID [$conf] caught_by: ${caught:-none} | not: $other | $sig"
  done
done
