#!/bin/bash
# evalwave_par.sh <wave-tag> <property ids...>: like evalwave.sh, but /repo is never touched: each change is applied
# inside the sub-agent's own scratch worktree /tmp/<tag>-<id> and the checks rebuild from there (KNUT_REPO), so the
# properties are evaluated side by side (PAR at a time, VERIF_WORKERS workers per check).
# Checks to run per change: /tmp/<tag>-props.txt ("<seeded id> <props...>"), default: the property itself.
TAG=$1; shift
PAR=${PAR:-4}
export VERIF_WORKERS=${VERIF_WORKERS:-5}
export KNUTSIM_KEEP_CACHE=1
cd /verif
one() {
  TAG=$1; P=$2
  for N in m1 m2; do
    WT=/tmp/$TAG-$P
    SRC=$WT/seeded/$N
    [ -f "$SRC/patch.diff" ] || { echo "$P $N: no deliverable"; continue; }
    ID=$P-$TAG$N
    mkdir -p seeded/$ID && cp -r $SRC/. seeded/$ID/
    demo=run_demo.sh; [ -f $SRC/$demo ] || demo=demo.sh
    conf=$(bin/confirm.sh $WT $N bash seeded/$N/$demo 2>&1 | grep CONFIRM | tr '\n' ' ')
    props=$(grep "^$ID " /tmp/$TAG-props.txt 2>/dev/null | cut -d' ' -f2-); [ -z "$props" ] && props=$P
    OUT=seeded/$ID/check_results.txt; : > $OUT
    git -C $WT apply seeded/$N/patch.diff || { echo "$ID: patch does not apply"; continue; }
    for Q in $props; do
      KNUT_REPO=$WT VERIF_EVIDENCE_DIR=/tmp/mutant-evidence.$ID timeout 900 bin/check $Q ${TIER:-quick} > /tmp/evalwave.$ID.log 2>&1
      rc=$?
      echo "== $Q exit=$rc" >> $OUT
      grep -A1 "^VIOLATION\|^KNOWN-FINDING\|^INFRA-ERROR\|BUILD-ERROR\|instrumentation failed" /tmp/evalwave.$ID.log | cut -c1-400 | head -12 >> $OUT
      tail -1 /tmp/evalwave.$ID.log | cut -c1-250 >> $OUT
    done
    git -C $WT apply -R seeded/$N/patch.diff
    for h in $(grep -l "^$WT\$" .cache/*/repo.txt 2>/dev/null); do rm -rf "$(dirname $h)"; done
    rm -rf /tmp/mutant-evidence.$ID /tmp/evalwave.$ID.log
    caught=$(grep -o "^== C[0-9]* exit=1" $OUT | awk '{print $2}' | tr '\n' ' ')
    other=$(grep "^== C[0-9]* exit=[02]" $OUT | awk '{print $2":"$3}' | tr '\n' ' ')
    sig=$(grep -A1 "^VIOLATION" $OUT | grep -v VIOLATION | head -1 | cut -c1-140)
    echo "$ID [$conf] caught_by: ${caught:-none} | not: $other | $sig"
  done
}
export -f one
printf '%s\n' "$@" | xargs -P $PAR -I{} bash -c "one $TAG {}"
