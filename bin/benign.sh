#!/bin/bash
# Re-runs every behaviour-preserving refactoring under /verif/benign against all claimed checks
# (quick tier): every check must stay silent. Prints one line per refactoring.
cd "$(dirname "$0")/.."
ALL="C01 C02 C03 C04 C05 C06 C09 C12 C14 C15 C16 C18 C19 C20"
for d in benign/*/; do
  id=$(basename $d)
  [ -f "$d/patch.diff" ] || continue
  bin/mutant.sh "$PWD/benign/$id" $ALL > /dev/null 2>&1
  bad=$(grep "^== C[0-9]* exit=[12]" benign/$id/check_results.txt | awk '{print $2":"$3}' | tr '\n' ' ')
  echo "$id alarms: ${bad:-none}"
done
