#!/usr/bin/env python3
"""Regenerates /verif/MANIFEST.json from bin/props.py (single source of truth for claimed checks)."""
import json, sys, os
sys.path.insert(0, "/verif/bin")
from props import PROPS, NOT_APPLICABLE, LEVEL_TEXT

checks = []
for pid in sorted(PROPS):
    c = PROPS[pid]
    checks.append({
        "property_id": pid,
        "quick_cmd": "bin/check %s quick" % pid,
        "thorough_cmd": "bin/check %s thorough" % pid,
        "evidence_file": "/verif/evidence/%s.json" % pid,
        "replay_cmd_template": "bin/check %s quick --replay {path}" % pid,
        "engine": "knutsim",
        "level_claimed": {"category": c["level"], "text": LEVEL_TEXT[pid], "design_ref": "DESIGN.md section 5, " + pid},
        "level_note": c.get("note", "Trusted base: the instrumenter's rewrite rules (R1-R7), simrt (scheduler, simfs, map-order seam), the reference models and readers in /verif/harness, go1.26.8 testing/synctest. A clean batch is evidence, not proof: schedules, map orders, faults and inputs are sampled (read/write faults and crash points are enumerated per workload where the level says fault_enumeration)."),
        "technique": c.get("technique", "deterministic simulation with fault injection: seeded scheduler + map-order + simulated file system over the instrumented real code, oracle against an executable reference model"),
    })
m = {
    "version": 1,
    "setup_cmd": "bin/setup",
    "hooks": {
        "guard": "none: /repo carries no verification hooks; every check instruments a scratch copy of the working tree at build time (bin/build.sh, /verif/instr)",
        "enable": "bin/build.sh copies /repo's working tree and github.com/natefinch/atomic to a scratch directory, rewrites both with /verif/instr (rules R1-R7) and builds the engines from the copies; the scratch directory is removed afterwards",
        "baseline_off_cmd": "cd /repo && GOFLAGS=-mod=mod GOPROXY=off go test -json -vet=off -count=1 -timeout 25m ./...",
        "source_commits": [],
        "add_only": True,
    },
    "engines": [
        {"name": "knutsim engine S", "path": "/verif/simrt, /verif/instr, /verif/harness", "serves_properties": sorted(PROPS), "kind_free_text": "deterministic simulator: AST-instrumented copy of knut run in-process inside testing/synctest bubbles under a seeded serialising scheduler, seeded map-iteration order, simulated file system with fault and crash injection, fake clock; go1.26.8"},
        {"name": "knutsim engine R", "path": "/verif/harness/racemain, /verif/harness/c19r.go", "serves_properties": ["C19"], "kind_free_text": "the same instrumented copy built with -race (default toolchain), seeded Gosched perturbation and permuted map order; oracle: the race detector"},
        {"name": "engine X", "path": "/verif/.cache/<hash>/knut", "serves_properties": ["C06", "C14", "C18"], "kind_free_text": "the shipped, uninstrumented binary as a subprocess: corroboration only, never the deciding step"},
    ],
    "checks": checks,
    "not_applicable": NOT_APPLICABLE,
    "notes": "See DESIGN.md. known_findings.json lists genuine defects (fixed by 'fix:' commits in /repo, or recorded). Seeded breaking changes and what catches them: /verif/seeded/.",
}
json.dump(m, open("/verif/MANIFEST.json", "w"), indent=1)
print("MANIFEST.json:", len(checks), "checks,", len(NOT_APPLICABLE), "not applicable")
