#!/bin/bash
# Build the three engines from /repo's current working tree. Prints the cache
# directory on the last line. Exit 2 on any build/instrumentation trouble.
# Usage: build.sh [S|SX|SRX]   (which engines are needed; default S)
set -u
WANT=${1:-S}
export GOFLAGS=-mod=mod GOPROXY=off GOSUMDB=off GOTOOLCHAIN=local GONOSUMDB=* GONOSUMCHECK=1 GOFLAGS=-mod=mod
VERIF=$(cd "$(dirname "$0")/.." && pwd)
REPO=${KNUT_REPO:-/repo}
GO126=/opt/veriftools/go1.26.8/bin/go
CACHE=$VERIF/.cache
mkdir -p $CACHE

hash_tree() {
  ( cd $REPO && find . -path ./.git -prune -o -type f \( -name '*.go' -o -name go.mod -o -name go.sum \) -print0 | sort -z | xargs -0 sha256sum
    cd $VERIF && find simrt instr harness -type f \( -name '*.go' -o -name go.mod \) -print0 | sort -z | xargs -0 sha256sum
    echo "$REPO" ) | sha256sum | cut -c1-20
}
H=$(hash_tree)
OUT=$CACHE/$H
mkdir -p $OUT
exec 9>$OUT/.lock
flock 9
echo "$REPO" > $OUT/repo.txt

need_S=0; need_R=0; need_X=0
case $WANT in *S*) [ -x $OUT/engineS.test ] || need_S=1;; esac
case $WANT in *R*) [ -x $OUT/knut-race ] || need_R=1;; esac
case $WANT in *X*) [ -x $OUT/knut ] || need_X=1;; esac

if [ $need_S = 0 ] && [ $need_R = 0 ] && [ $need_X = 0 ]; then
  echo $OUT; exit 0
fi

# keep one generation: drop other cache entries (not while several trees are checked side by side:
# bin/agents/evalwave_par.sh sets KNUTSIM_KEEP_CACHE and removes its entries itself)
[ -n "${KNUTSIM_KEEP_CACHE:-}" ] || for d in $CACHE/*/; do
  d=${d%/}
  [ "$d" = "$OUT" ] && continue
  case "$(basename "$d")" in
    [0-9a-f][0-9a-f][0-9a-f][0-9a-f][0-9a-f][0-9a-f][0-9a-f][0-9a-f][0-9a-f][0-9a-f][0-9a-f][0-9a-f][0-9a-f][0-9a-f][0-9a-f][0-9a-f][0-9a-f][0-9a-f][0-9a-f][0-9a-f]) rm -rf "$d";;
  esac
done

S=$(mktemp -d /tmp/knutsim.XXXXXX)
cleanup() { chmod -R u+w "$S" 2>/dev/null; rm -rf "$S"; }
trap cleanup EXIT

die() { echo "BUILD-ERROR: $*" >&2; exit 2; }

if [ $need_X = 1 ]; then
  # built from a copy: with -mod=mod the go command may rewrite go.mod, and /repo is left as found
  rsync -a --exclude .git $REPO/ $S/knutx/ || die "copy failed"
  ( cd $S/knutx && go build -o $OUT/knut . ) >$OUT/buildX.log 2>&1 || { cat $OUT/buildX.log >&2; die "engine X build failed"; }
fi

if [ $need_S = 1 ] || [ $need_R = 1 ]; then
  if [ ! -x $CACHE/instr ] || [ -n "$(find $VERIF/instr -newer $CACHE/instr -name '*.go' 2>/dev/null)" ]; then
    ( cd $VERIF/instr && go build -o $CACHE/instr . ) >$OUT/buildI.log 2>&1 || { cat $OUT/buildI.log >&2; die "instrumenter build failed"; }
  fi
  rsync -a --exclude .git $REPO/ $S/knut/ || die "copy failed"
  ATOMIC=$(go env GOMODCACHE)/github.com/natefinch/atomic@v1.0.1
  mkdir $S/atomic && cp -r $ATOMIC/. $S/atomic/ && chmod -R u+w $S/atomic || die "atomic copy failed"
  ( $CACHE/instr $S/knut && $CACHE/instr $S/atomic ) >$OUT/instr.log 2>&1 || { cat $OUT/instr.log >&2; die "instrumentation failed"; }
  cat > $S/harness.mod <<EOF
module knutsim/harness

go 1.25

require (
	github.com/sboehler/knut v0.0.0
	knutsim/simrt v0.0.0
	github.com/anishathalye/porcupine v1.3.0
)

replace github.com/sboehler/knut => $S/knut

replace github.com/natefinch/atomic => $S/atomic

replace knutsim/simrt => $VERIF/simrt
EOF
  cp $REPO/go.sum $S/harness.sum
fi

if [ $need_S = 1 ]; then
  ( cd $VERIF/harness && $GO126 test -c -vet=off -modfile=$S/harness.mod -o $OUT/engineS.test . ) >$OUT/buildS.log 2>&1 || { cat $OUT/buildS.log >&2; rm -f $OUT/engineS.test; die "engine S build failed"; }
fi

if [ $need_R = 1 ]; then
  # the instrumented knut binary with the race detector (default toolchain)
  cat >> $S/knut/go.mod <<EOF

require knutsim/simrt v0.0.0

replace knutsim/simrt => $VERIF/simrt

replace github.com/natefinch/atomic => $S/atomic
EOF
  mkdir -p $S/knut/cmd/racemain && cp $VERIF/harness/racemain/main.go.txt $S/knut/cmd/racemain/main.go
  ( cd $S/knut && go build -race -o $OUT/knut-race ./cmd/racemain ) >$OUT/buildR.log 2>&1 || { cat $OUT/buildR.log >&2; rm -f $OUT/knut-race; die "engine R build failed"; }
fi
echo $OUT
