package simrt

import (
	"errors"
	"fmt"
	"io"
	"io/fs"
	"os"
	"path"
	"sort"
	"strings"
	"sync"
	"syscall"
	"time"
)

// FS is the simulated disk: an in-memory POSIX-like file system whose every
// primitive operation is a fault point and is recorded in a trace from which
// the legal post-crash images are computed (see CrashImages).
type FS struct {
	mu     sync.Mutex
	sim    *Sim
	files  map[string]*inode
	links  map[string]string // symbolic links: path -> target
	dirs   map[string]os.FileMode
	nextIn int
	frozen bool
	Trace  []FsOp
	Plan   map[int]Fault // op index -> fault
	Fired  map[string]int
	Names  *Stream // temp-file names; nil: counter
	tmpSeq int
	// ReadOnlyDirs lists directories in which entries cannot be created,
	// renamed or removed (EACCES), like a directory without write permission.
	ReadOnlyDirs map[string]bool
	sticky       map[string]Fault // op kind -> persistent fault (see Fault.Sticky)
}

type inode struct {
	id   int
	data []byte
	mode os.FileMode
}

// FsOp is one recorded primitive operation.
type FsOp struct {
	N     int    `json:"n"`
	Op    string `json:"op"` // create, trunc, write, sync, close, stat, chmod, rename, remove, open, read, readfile, mktemp
	Path  string `json:"path,omitempty"`
	Path2 string `json:"path2,omitempty"`
	Ino   int    `json:"ino,omitempty"`
	Data  []byte `json:"data,omitempty"` // bytes actually written
	Len   int    `json:"len,omitempty"`  // bytes requested
	Fault string `json:"fault,omitempty"`
	Err   string `json:"err,omitempty"`
	Task  string `json:"task,omitempty"`
}

// Fault is an injected failure at one operation.
type Fault struct {
	Kind string `json:"kind"` // enoent eacces eisdir eio enospc trunc flip crash
	Arg  int    `json:"arg,omitempty"`
	// Sticky: the condition persists (a full or read-only disk, a file system that
	// refuses the call): every later operation of the same kind fails the same way.
	Sticky bool `json:"sticky,omitempty"`
}

func NewFS() *FS {
	return &FS{files: map[string]*inode{}, links: map[string]string{}, dirs: map[string]os.FileMode{"/": 0o755, ".": 0o755}, Plan: map[int]Fault{}, Fired: map[string]int{}, ReadOnlyDirs: map[string]bool{}}
}

func clean(p string) string {
	if p == "" {
		return "."
	}
	return path.Clean(p)
}

// Put installs a file (and its parent directories) before the run.
func (f *FS) Put(p string, data string, mode os.FileMode) {
	p = clean(p)
	f.nextIn++
	f.files[p] = &inode{id: f.nextIn, data: []byte(data), mode: mode}
	for d := path.Dir(p); ; d = path.Dir(d) {
		f.dirs[d] = 0o755
		if d == "." || d == "/" {
			break
		}
	}
}

func (f *FS) Mkdir(p string) { f.dirs[clean(p)] = 0o755 }

// PutLink installs a symbolic link before the run.
func (f *FS) PutLink(p, target string) {
	p = clean(p)
	f.links[p] = target
	for d := path.Dir(p); ; d = path.Dir(d) {
		f.dirs[d] = 0o755
		if d == "." || d == "/" {
			break
		}
	}
}

// resolve follows symbolic links on the last path element.
func (f *FS) resolve(p string) string {
	for i := 0; i < 8; i++ {
		t, ok := f.links[p]
		if !ok {
			return p
		}
		if path.IsAbs(t) {
			p = clean(t)
		} else {
			p = clean(path.Join(path.Dir(p), t))
		}
	}
	return p
}

// Links returns the symbolic links that currently exist.
func (f *FS) Links() map[string]string {
	f.mu.Lock()
	defer f.mu.Unlock()
	m := map[string]string{}
	for k, v := range f.links {
		m[k] = v
	}
	return m
}

// Snapshot returns the volatile image: path -> content.
func (f *FS) Snapshot() map[string]string {
	f.mu.Lock()
	defer f.mu.Unlock()
	m := map[string]string{}
	for p, in := range f.files {
		m[p] = string(in.data)
	}
	// what a reader sees through a link
	for p := range f.links {
		if in, ok := f.files[f.resolve(p)]; ok {
			m[p] = string(in.data)
		}
	}
	return m
}

func (f *FS) Modes() map[string]os.FileMode {
	f.mu.Lock()
	defer f.mu.Unlock()
	m := map[string]os.FileMode{}
	for p, in := range f.files {
		m[p] = in.mode
	}
	return m
}

func (f *FS) freeze() {
	f.mu.Lock()
	f.frozen = true
	f.mu.Unlock()
}

func errnoFor(kind string) error {
	switch kind {
	case "enoent":
		return syscall.ENOENT
	case "eacces":
		return syscall.EACCES
	case "eisdir":
		return syscall.EISDIR
	case "eio":
		return syscall.EIO
	case "enospc":
		return syscall.ENOSPC
	case "efbig":
		return syscall.EFBIG
	}
	return syscall.EIO
}

// begin registers an operation; it returns the op record (already appended to
// the trace) and the fault planned for it, if any. A planned crash ends the run.
func (f *FS) begin(op FsOp) (*FsOp, *Fault) {
	f.mu.Lock()
	if f.frozen {
		f.mu.Unlock()
		panic(abortSentinel{})
	}
	op.N = len(f.Trace)
	if f.sim != nil {
		if t := f.sim.me(); t != nil {
			op.Task = t.id
		}
	}
	var flt *Fault
	if fl, ok := f.sticky[op.Op]; ok {
		flt = &fl
	}
	if fl, ok := f.Plan[op.N]; ok {
		flt = &fl
		if fl.Sticky && fl.Kind != "crash" {
			if f.sticky == nil {
				f.sticky = map[string]Fault{}
			}
			f.sticky[op.Op] = fl
		}
		if fl.Kind == "crash" {
			f.Fired["crash"]++
			op.Fault = "crash"
			f.Trace = append(f.Trace, op)
			f.mu.Unlock()
			s := f.sim
			s.mu.Lock()
			s.finishLocked(OutCrash, 0, "", "")
			s.mu.Unlock()
			panic(abortSentinel{})
		}
	}
	f.Trace = append(f.Trace, op)
	r := &f.Trace[len(f.Trace)-1]
	f.mu.Unlock()
	return r, flt
}

func (f *FS) fire(r *FsOp, flt *Fault) {
	f.mu.Lock()
	f.Fired[r.Op+":"+flt.Kind]++
	f.Trace[r.N].Fault = flt.Kind
	f.mu.Unlock()
}

func (f *FS) setErr(r *FsOp, err error) error {
	if err != nil {
		f.mu.Lock()
		f.Trace[r.N].Err = err.Error()
		f.mu.Unlock()
	}
	return err
}

func pathErr(op, p string, e error) error { return &fs.PathError{Op: op, Path: p, Err: e} }

func (f *FS) fsActive() bool { return mode.Load() == ModeSerial && cur != nil && cur.cfg.FS != nil }

func theFS() *FS {
	if mode.Load() == ModeSerial && cur != nil {
		return cur.cfg.FS
	}
	return nil
}

// ---- File ---------------------------------------------------------------------

// File replaces *os.File in instrumented code.
type File struct {
	real   *os.File
	fs     *FS
	ino    *inode
	name   string
	pos    int
	closed bool
	rd, wr bool
	app    bool
}

type fileInfo struct {
	name string
	size int64
	mode os.FileMode
	dir  bool
	ino  int    // identity of a regular file (0: none)
	path string // identity of a directory or link
}

// SameFile replaces os.SameFile: two descriptions of one simulated inode (or of
// one directory); outside the simulation the real function decides.
func SameFile(a, b os.FileInfo) bool {
	x, ok1 := a.(fileInfo)
	y, ok2 := b.(fileInfo)
	if !ok1 || !ok2 {
		if ok1 || ok2 {
			return false
		}
		return os.SameFile(a, b)
	}
	if x.ino != 0 || y.ino != 0 {
		return x.ino == y.ino
	}
	return x.path != "" && x.path == y.path
}

func (i fileInfo) Name() string { return i.name }
func (i fileInfo) Size() int64  { return i.size }
func (i fileInfo) Mode() os.FileMode {
	if i.dir {
		return i.mode | os.ModeDir
	}
	return i.mode
}
func (i fileInfo) ModTime() time.Time { return time.Unix(946684800, 0) }
func (i fileInfo) IsDir() bool        { return i.dir }
func (i fileInfo) Sys() any           { return nil }

// StdinFile replaces os.Stdin: under the simulator an empty read-only stream
// (what a command started with </dev/null sees), otherwise the real one.
func StdinFile() *File {
	if f := theFS(); f != nil {
		return &File{fs: f, ino: &inode{id: -1000}, name: "/dev/stdin", rd: true}
	}
	return &File{real: os.Stdin}
}

func (fl *File) Name() string {
	if fl.real != nil {
		return fl.real.Name()
	}
	return fl.name
}

func (fl *File) Read(p []byte) (int, error) {
	if fl.real != nil {
		return fl.real.Read(p)
	}
	f := fl.fs
	r, flt := f.begin(FsOp{Op: "read", Path: fl.name, Ino: fl.ino.id, Len: len(p)})
	if fl.closed {
		return 0, f.setErr(r, pathErr("read", fl.name, os.ErrClosed))
	}
	if flt != nil && (flt.Kind == "eio" || flt.Kind == "eisdir") {
		f.fire(r, flt)
		return 0, f.setErr(r, pathErr("read", fl.name, errnoFor(flt.Kind)))
	}
	f.mu.Lock()
	defer f.mu.Unlock()
	if fl.pos >= len(fl.ino.data) {
		return 0, io.EOF
	}
	n := copy(p, fl.ino.data[fl.pos:])
	if flt != nil && flt.Kind == "short" && n > 1 {
		n = 1 + flt.Arg%(n-1)
		f.Fired["read:short"]++
	}
	fl.pos += n
	return n, nil
}

func (fl *File) Write(p []byte) (int, error) {
	if fl.real != nil {
		return fl.real.Write(p)
	}
	f := fl.fs
	r, flt := f.begin(FsOp{Op: "write", Path: fl.name, Ino: fl.ino.id, Len: len(p)})
	if fl.closed {
		return 0, f.setErr(r, pathErr("write", fl.name, os.ErrClosed))
	}
	n := len(p)
	var err error
	if flt != nil {
		switch flt.Kind {
		case "enospc", "efbig", "eio":
			f.fire(r, flt)
			n = flt.Arg
			if n > len(p) {
				n = len(p)
			}
			if n < 0 {
				n = 0
			}
			err = pathErr("write", fl.name, errnoFor(flt.Kind))
		}
	}
	f.mu.Lock()
	if fl.app {
		fl.pos = len(fl.ino.data)
	}
	end := fl.pos + n
	if end > len(fl.ino.data) {
		fl.ino.data = append(fl.ino.data, make([]byte, end-len(fl.ino.data))...)
	}
	copy(fl.ino.data[fl.pos:end], p[:n])
	fl.pos = end
	f.Trace[r.N].Data = append([]byte(nil), p[:n]...)
	f.mu.Unlock()
	return n, f.setErr(r, err)
}

func (fl *File) WriteString(s string) (int, error) { return fl.Write([]byte(s)) }

func (fl *File) Sync() error {
	if fl.real != nil {
		return fl.real.Sync()
	}
	f := fl.fs
	r, flt := f.begin(FsOp{Op: "sync", Path: fl.name, Ino: fl.ino.id})
	if fl.closed {
		return f.setErr(r, pathErr("sync", fl.name, os.ErrClosed))
	}
	if flt != nil && (flt.Kind == "eio" || flt.Kind == "enospc") {
		f.fire(r, flt)
		return f.setErr(r, pathErr("sync", fl.name, errnoFor(flt.Kind)))
	}
	return nil
}

func (fl *File) Close() error {
	if fl.real != nil {
		return fl.real.Close()
	}
	f := fl.fs
	f.mu.Lock()
	frozen := f.frozen
	f.mu.Unlock()
	if frozen {
		fl.closed = true
		return nil // deferred closes during teardown
	}
	if fl.closed {
		return pathErr("close", fl.name, os.ErrClosed)
	}
	r, flt := f.begin(FsOp{Op: "close", Path: fl.name, Ino: fl.ino.id})
	fl.closed = true
	if flt != nil && (flt.Kind == "eio" || flt.Kind == "enospc") {
		f.fire(r, flt)
		return f.setErr(r, pathErr("close", fl.name, errnoFor(flt.Kind)))
	}
	return nil
}

func (fl *File) Stat() (os.FileInfo, error) {
	if fl.real != nil {
		return fl.real.Stat()
	}
	fl.fs.mu.Lock()
	defer fl.fs.mu.Unlock()
	return fileInfo{name: path.Base(fl.name), size: int64(len(fl.ino.data)), mode: fl.ino.mode, ino: fl.ino.id}, nil
}

func (fl *File) Chmod(m os.FileMode) error {
	if fl.real != nil {
		return fl.real.Chmod(m)
	}
	return Chmod(fl.name, m)
}

func (fl *File) Seek(off int64, whence int) (int64, error) {
	if fl.real != nil {
		return fl.real.Seek(off, whence)
	}
	fl.fs.mu.Lock()
	defer fl.fs.mu.Unlock()
	switch whence {
	case io.SeekStart:
		fl.pos = int(off)
	case io.SeekCurrent:
		fl.pos += int(off)
	case io.SeekEnd:
		fl.pos = len(fl.ino.data) + int(off)
	}
	return int64(fl.pos), nil
}

// ---- package-level functions --------------------------------------------------

func (f *FS) lookup(p string) (*inode, bool, bool) {
	if in, ok := f.files[p]; ok {
		return in, false, true
	}
	if _, ok := f.dirs[p]; ok {
		return nil, true, true
	}
	return nil, false, false
}

func (f *FS) parentOK(p string) error {
	d := path.Dir(p)
	if _, ok := f.dirs[d]; !ok {
		return syscall.ENOENT
	}
	if f.ReadOnlyDirs[d] {
		return syscall.EACCES
	}
	return nil
}

func ReadFile(name string) ([]byte, error) {
	f := theFS()
	if f == nil {
		return os.ReadFile(name)
	}
	f.mu.Lock()
	p := f.resolve(clean(name))
	f.mu.Unlock()
	r, flt := f.begin(FsOp{Op: "readfile", Path: p})
	if flt != nil {
		switch flt.Kind {
		case "enoent", "eacces", "eisdir", "eio":
			f.fire(r, flt)
			op := "open"
			if flt.Kind == "eio" || flt.Kind == "eisdir" {
				op = "read"
			}
			return nil, f.setErr(r, pathErr(op, name, errnoFor(flt.Kind)))
		}
	}
	f.mu.Lock()
	in, isDir, ok := f.lookup(p)
	f.mu.Unlock()
	if !ok {
		return nil, f.setErr(r, pathErr("open", name, syscall.ENOENT))
	}
	if isDir {
		return nil, f.setErr(r, pathErr("read", name, syscall.EISDIR))
	}
	if in.mode&0o400 == 0 {
		return nil, f.setErr(r, pathErr("open", name, syscall.EACCES))
	}
	f.mu.Lock()
	data := append([]byte(nil), in.data...)
	f.mu.Unlock()
	if flt != nil {
		switch flt.Kind {
		case "trunc":
			f.fire(r, flt)
			if len(data) > 0 {
				data = data[:flt.Arg%len(data)]
			}
		case "flip":
			f.fire(r, flt)
			if len(data) > 0 {
				i := (flt.Arg / 8) % len(data)
				data[i] ^= 1 << uint(flt.Arg%8)
			}
		}
	}
	return data, nil
}

func Open(name string) (*File, error) { return OpenFile(name, os.O_RDONLY, 0) }

func Create(name string) (*File, error) {
	return OpenFile(name, os.O_RDWR|os.O_CREATE|os.O_TRUNC, 0o666)
}

func OpenFile(name string, flag int, perm os.FileMode) (*File, error) {
	f := theFS()
	if f == nil {
		rf, err := os.OpenFile(name, flag, perm)
		if err != nil {
			return nil, err
		}
		return &File{real: rf}, nil
	}
	f.mu.Lock()
	p := clean(name)
	if flag&os.O_EXCL == 0 {
		p = f.resolve(p)
	}
	f.mu.Unlock()
	r, flt := f.begin(FsOp{Op: "open", Path: p, Len: flag})
	if flt != nil {
		switch flt.Kind {
		case "enoent", "eacces", "eisdir", "eio", "enospc":
			f.fire(r, flt)
			return nil, f.setErr(r, pathErr("open", name, errnoFor(flt.Kind)))
		}
	}
	f.mu.Lock()
	defer f.mu.Unlock()
	in, isDir, ok := f.lookup(p)
	wr := flag&(os.O_WRONLY|os.O_RDWR) != 0
	if isDir {
		if wr {
			return nil, pathErr("open", name, syscall.EISDIR)
		}
		// reading a directory as a file fails at read time
		f.nextIn++
		return &File{fs: f, ino: &inode{id: f.nextIn, mode: 0o755}, name: p, rd: true, closed: false}, nil
	}
	if !ok {
		if flag&os.O_CREATE == 0 {
			f.Trace[r.N].Err = "ENOENT"
			return nil, pathErr("open", name, syscall.ENOENT)
		}
		if e := f.parentOK(p); e != nil {
			f.Trace[r.N].Err = e.Error()
			return nil, pathErr("open", name, e)
		}
		f.nextIn++
		in = &inode{id: f.nextIn, mode: perm &^ 0o022}
		f.files[p] = in
		f.Trace[r.N].Op = "create"
		f.Trace[r.N].Ino = in.id
	} else {
		if flag&os.O_EXCL != 0 && flag&os.O_CREATE != 0 {
			return nil, pathErr("open", name, syscall.EEXIST)
		}
		if wr && in.mode&0o200 == 0 {
			return nil, pathErr("open", name, syscall.EACCES)
		}
		if !wr && in.mode&0o400 == 0 {
			return nil, pathErr("open", name, syscall.EACCES)
		}
		f.Trace[r.N].Ino = in.id
		if flag&os.O_TRUNC != 0 && wr {
			in.data = nil
			f.Trace[r.N].Op = "trunc"
		}
	}
	return &File{fs: f, ino: in, name: p, rd: !wr || flag&os.O_RDWR != 0, wr: wr, app: flag&os.O_APPEND != 0}, nil
}

func WriteFile(name string, data []byte, perm os.FileMode) error {
	if theFS() == nil {
		return os.WriteFile(name, data, perm)
	}
	fl, err := OpenFile(name, os.O_WRONLY|os.O_CREATE|os.O_TRUNC, perm)
	if err != nil {
		return err
	}
	_, err = fl.Write(data)
	if err1 := fl.Close(); err1 != nil && err == nil {
		err = err1
	}
	return err
}

func CreateTemp(dir, pattern string) (*File, error) {
	f := theFS()
	if f == nil {
		rf, err := os.CreateTemp(dir, pattern)
		if err != nil {
			return nil, err
		}
		return &File{real: rf}, nil
	}
	if dir == "" {
		dir = "/tmp"
	}
	prefix, suffix := pattern, ""
	if i := strings.LastIndex(pattern, "*"); i >= 0 {
		prefix, suffix = pattern[:i], pattern[i+1:]
	}
	// like os.CreateTemp: a name that already exists is skipped
	for {
		f.mu.Lock()
		f.tmpSeq++
		n := f.tmpSeq
		name := path.Join(dir, fmt.Sprintf("%s%09d%s", prefix, 100000000+n*7919, suffix))
		_, _, exists := f.lookup(clean(name))
		f.mu.Unlock()
		if exists {
			continue
		}
		return OpenFile(name, os.O_RDWR|os.O_CREATE|os.O_EXCL, 0o600)
	}
}

func TempFile(dir, pattern string) (*File, error) { return CreateTemp(dir, pattern) }

func Stat(name string) (os.FileInfo, error) {
	f := theFS()
	if f == nil {
		return os.Stat(name)
	}
	f.mu.Lock()
	p := f.resolve(clean(name))
	f.mu.Unlock()
	r, flt := f.begin(FsOp{Op: "stat", Path: p})
	if flt != nil {
		switch flt.Kind {
		case "enoent", "eacces", "eio":
			f.fire(r, flt)
			return nil, f.setErr(r, pathErr("stat", name, errnoFor(flt.Kind)))
		}
	}
	f.mu.Lock()
	defer f.mu.Unlock()
	in, isDir, ok := f.lookup(p)
	if !ok {
		return nil, pathErr("stat", name, syscall.ENOENT)
	}
	if isDir {
		return fileInfo{name: path.Base(p), mode: f.dirs[p], dir: true, path: p}, nil
	}
	return fileInfo{name: path.Base(p), size: int64(len(in.data)), mode: in.mode, ino: in.id}, nil
}

func Lstat(name string) (os.FileInfo, error) {
	f := theFS()
	if f == nil {
		return os.Lstat(name)
	}
	f.mu.Lock()
	_, isLink := f.links[clean(name)]
	f.mu.Unlock()
	if isLink {
		return fileInfo{name: path.Base(name), mode: os.ModeSymlink | 0o777, path: name}, nil
	}
	return Stat(name)
}

func Readlink(name string) (string, error) {
	f := theFS()
	if f == nil {
		return os.Readlink(name)
	}
	f.mu.Lock()
	defer f.mu.Unlock()
	if t, ok := f.links[clean(name)]; ok {
		return t, nil
	}
	return "", pathErr("readlink", name, syscall.EINVAL)
}

func Symlink(oldname, newname string) error {
	f := theFS()
	if f == nil {
		return os.Symlink(oldname, newname)
	}
	f.mu.Lock()
	defer f.mu.Unlock()
	f.links[clean(newname)] = oldname
	return nil
}

func Chmod(name string, m os.FileMode) error {
	f := theFS()
	if f == nil {
		return os.Chmod(name, m)
	}
	f.mu.Lock()
	p := f.resolve(clean(name))
	f.mu.Unlock()
	r, flt := f.begin(FsOp{Op: "chmod", Path: p, Len: int(m)})
	if flt != nil {
		switch flt.Kind {
		case "enoent", "eacces", "eio":
			f.fire(r, flt)
			return f.setErr(r, pathErr("chmod", name, errnoFor(flt.Kind)))
		}
	}
	f.mu.Lock()
	defer f.mu.Unlock()
	in, _, ok := f.lookup(p)
	if !ok {
		return pathErr("chmod", name, syscall.ENOENT)
	}
	if in != nil {
		in.mode = m.Perm()
		f.Trace[r.N].Ino = in.id
	}
	return nil
}

func Rename(oldp, newp string) error {
	f := theFS()
	if f == nil {
		return os.Rename(oldp, newp)
	}
	a, b := clean(oldp), clean(newp)
	r, flt := f.begin(FsOp{Op: "rename", Path: a, Path2: b})
	if flt != nil {
		switch flt.Kind {
		case "enoent", "eacces", "eio", "enospc":
			f.fire(r, flt)
			return f.setErr(r, &os.LinkError{Op: "rename", Old: oldp, New: newp, Err: errnoFor(flt.Kind)})
		}
	}
	f.mu.Lock()
	defer f.mu.Unlock()
	if t, isLink := f.links[a]; isLink {
		if e := f.parentOK(b); e != nil {
			return &os.LinkError{Op: "rename", Old: oldp, New: newp, Err: e}
		}
		delete(f.links, a)
		delete(f.files, b)
		f.links[b] = t
		return nil
	}
	in, isDir, ok := f.lookup(a)
	if !ok || isDir {
		f.Trace[r.N].Err = "ENOENT"
		return &os.LinkError{Op: "rename", Old: oldp, New: newp, Err: syscall.ENOENT}
	}
	if e := f.parentOK(b); e != nil {
		f.Trace[r.N].Err = e.Error()
		return &os.LinkError{Op: "rename", Old: oldp, New: newp, Err: e}
	}
	if e := f.parentOK(a); e != nil {
		f.Trace[r.N].Err = e.Error()
		return &os.LinkError{Op: "rename", Old: oldp, New: newp, Err: e}
	}
	if _, d, ok := f.lookup(b); ok && d {
		f.Trace[r.N].Err = "EISDIR"
		return &os.LinkError{Op: "rename", Old: oldp, New: newp, Err: syscall.EISDIR}
	}
	delete(f.links, b) // a rename over a symbolic link replaces the link itself
	f.files[b] = in
	delete(f.files, a)
	f.Trace[r.N].Ino = in.id
	return nil
}

func Remove(name string) error {
	f := theFS()
	if f == nil {
		return os.Remove(name)
	}
	f.mu.Lock()
	frozen := f.frozen
	f.mu.Unlock()
	if frozen {
		return nil
	}
	p := clean(name)
	r, flt := f.begin(FsOp{Op: "remove", Path: p})
	if flt != nil {
		switch flt.Kind {
		case "enoent", "eacces", "eio":
			f.fire(r, flt)
			return f.setErr(r, pathErr("remove", name, errnoFor(flt.Kind)))
		}
	}
	f.mu.Lock()
	defer f.mu.Unlock()
	if _, isLink := f.links[p]; isLink {
		delete(f.links, p)
		return nil
	}
	in, _, ok := f.lookup(p)
	if !ok || in == nil {
		f.Trace[r.N].Err = "ENOENT"
		return pathErr("remove", name, syscall.ENOENT)
	}
	if e := f.parentOK(p); e != nil {
		f.Trace[r.N].Err = e.Error()
		return pathErr("remove", name, e)
	}
	delete(f.files, p)
	f.Trace[r.N].Ino = in.id
	return nil
}

func MkdirAll(p string, perm os.FileMode) error {
	f := theFS()
	if f == nil {
		return os.MkdirAll(p, perm)
	}
	f.mu.Lock()
	defer f.mu.Unlock()
	for d := clean(p); ; d = path.Dir(d) {
		f.dirs[d] = perm
		if d == "." || d == "/" {
			break
		}
	}
	return nil
}

// IsNotExist etc. work on the real error values returned above.
var _ = errors.Is

// ---- crash images ---------------------------------------------------------------

// Image is one legal durable state after a crash: path -> content.
type Image map[string]string

// CrashImages enumerates the legal durable images after a crash that happened
// just before operation index p of the trace (p == len(trace): after the last
// one), starting from the durable initial image init.
//
// Model (the usual POSIX reading, ext4-ordered-like): directory operations
// (create, rename, remove) reach the disk in order, but any suffix of them may
// be lost; file data is durable up to the last successful fsync of that inode,
// and of the bytes written afterwards any prefix may have reached the disk; a
// truncation is an inode change that may or may not have reached the disk
// unless followed by an fsync. Images are deduplicated.
func CrashImages(init map[string]string, trace []FsOp, p int) []Image {
	if p > len(trace) {
		p = len(trace)
	}
	type ino struct {
		synced   []byte   // content as of the last fsync (or initial)
		variants [][]byte // possible durable contents
	}
	// Replay the prefix, tracking per inode the synced content and the
	// volatile content, and the list of directory operations.
	type dop struct {
		kind string
		a, b string
		ino  int
	}
	vol := map[int][]byte{}
	synced := map[int][]byte{}
	dirty := map[int]bool{}
	hadTrunc := map[int][]byte{} // inode -> content before an unsynced truncation
	pathIno := map[string]int{}
	next := -1
	for pth, c := range init {
		pathIno[pth] = next
		vol[next] = []byte(c)
		synced[next] = []byte(c)
		next--
	}
	// Inode ids of initial files are unknown to the trace by path; map on first use.
	alias := map[int]int{} // trace ino -> our ino
	resolve := func(op FsOp) int {
		if v, ok := alias[op.Ino]; ok {
			return v
		}
		if v, ok := pathIno[op.Path]; ok && op.Op != "create" {
			alias[op.Ino] = v
			return v
		}
		alias[op.Ino] = op.Ino
		return op.Ino
	}
	var dops []dop
	pos := map[int]int{} // we only model sequential appends/overwrites from offset 0 per open
	_ = pos
	cur := map[string]int{}
	for k, v := range pathIno {
		cur[k] = v
	}
	for _, op := range trace[:p] {
		if op.Fault != "" && op.Op != "write" {
			continue
		}
		if op.Err != "" && op.Op != "write" {
			continue
		}
		switch op.Op {
		case "create":
			id := op.Ino
			alias[id] = id
			vol[id] = nil
			synced[id] = nil
			cur[op.Path] = id
			dops = append(dops, dop{kind: "create", a: op.Path, ino: id})
		case "trunc":
			id := resolve(op)
			if !dirty[id] {
				hadTrunc[id] = synced[id]
			}
			vol[id] = nil
			dirty[id] = true
		case "write":
			id := resolve(op)
			vol[id] = append(vol[id], op.Data...)
			if len(op.Data) > 0 {
				dirty[id] = true
			}
		case "sync":
			id := resolve(op)
			synced[id] = append([]byte(nil), vol[id]...)
			dirty[id] = false
			delete(hadTrunc, id)
		case "rename":
			id := cur[op.Path]
			delete(cur, op.Path)
			cur[op.Path2] = id
			dops = append(dops, dop{kind: "rename", a: op.Path, b: op.Path2, ino: id})
		case "remove":
			id := cur[op.Path]
			delete(cur, op.Path)
			dops = append(dops, dop{kind: "remove", a: op.Path, ino: id})
		}
	}
	// content variants per inode
	variants := func(id int) [][]byte {
		if !dirty[id] {
			return [][]byte{synced[id]}
		}
		var vs [][]byte
		seen := map[string]bool{}
		add := func(b []byte) {
			if !seen[string(b)] {
				seen[string(b)] = true
				vs = append(vs, b)
			}
		}
		add(synced[id])
		if old, ok := hadTrunc[id]; ok {
			add(old)
		}
		v := vol[id]
		base := 0
		if _, ok := hadTrunc[id]; !ok && len(synced[id]) <= len(v) && string(v[:len(synced[id])]) == string(synced[id]) {
			base = len(synced[id])
		}
		// every prefix between base and len(v); cap the enumeration for big files
		step := 1
		if len(v)-base > 512 {
			step = (len(v) - base) / 256
		}
		for k := base; k <= len(v); k += step {
			add(v[:k])
		}
		add(v)
		return vs
	}
	var images []Image
	seenImg := map[string]bool{}
	for k := 0; k <= len(dops); k++ {
		ns := map[string]int{}
		for pth, id := range pathIno {
			ns[pth] = id
		}
		for _, d := range dops[:k] {
			switch d.kind {
			case "create":
				ns[d.a] = d.ino
			case "rename":
				delete(ns, d.a)
				ns[d.b] = d.ino
			case "remove":
				delete(ns, d.a)
			}
		}
		// cartesian product over inodes with several variants
		paths := make([]string, 0, len(ns))
		for pth := range ns {
			paths = append(paths, pth)
		}
		sort.Strings(paths)
		var rec func(i int, img Image)
		rec = func(i int, img Image) {
			if len(images) > 20000 {
				return
			}
			if i == len(paths) {
				key := ""
				c := Image{}
				for _, pth := range paths {
					c[pth] = img[pth]
					key += pth + "\x00" + img[pth] + "\x01"
				}
				if !seenImg[key] {
					seenImg[key] = true
					images = append(images, c)
				}
				return
			}
			for _, v := range variants(ns[paths[i]]) {
				img[paths[i]] = string(v)
				rec(i+1, img)
			}
		}
		rec(0, Image{})
	}
	return images
}

// DirFS replaces os.DirFS: a read-only fs.FS rooted at dir on the simulated
// file system (names are checked with fs.ValidPath like os.DirFS does, so a
// name that climbs out of the root is "invalid argument"); outside the
// simulation the real one.
func DirFS(dir string) fs.FS {
	if theFS() == nil {
		return os.DirFS(dir)
	}
	return simDirFS(dir)
}

type simDirFS string

func (d simDirFS) join(op, name string) (string, error) {
	if !fs.ValidPath(name) {
		return "", &fs.PathError{Op: op, Path: name, Err: fs.ErrInvalid}
	}
	return path.Join(string(d), name), nil
}

func (d simDirFS) Open(name string) (fs.File, error) {
	p, err := d.join("open", name)
	if err != nil {
		return nil, err
	}
	f, err := Open(p)
	if err != nil {
		return nil, err
	}
	return f, nil
}

func (d simDirFS) ReadFile(name string) ([]byte, error) {
	p, err := d.join("readfile", name)
	if err != nil {
		return nil, err
	}
	return ReadFile(p)
}

func (d simDirFS) Stat(name string) (fs.FileInfo, error) {
	p, err := d.join("stat", name)
	if err != nil {
		return nil, err
	}
	return Stat(p)
}
