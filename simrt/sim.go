// Package simrt is the run-time half of knutsim: the instrumented copy of knut
// (and of natefinch/atomic) calls into it at every goroutine creation, channel
// operation, select, mutex operation, map range, file-system call, process exit
// and standard-stream reference. With no simulation active every entry point
// degenerates to the original operation.
package simrt

import (
	"fmt"
	"io"
	"os"
	"reflect"
	"runtime"
	"runtime/debug"
	"sort"
	"strconv"
	"sync"
	"sync/atomic"
	"syscall"
	"time"
	"unsafe"
)

const (
	ModeOff     int32 = 0
	ModeSerial  int32 = 1 // serialising scheduler, exact replay (engine S)
	ModePerturb int32 = 2 // real goroutines, seeded Gosched perturbation (engine R)
)

var mode atomic.Int32
var cur *Sim // valid while mode == ModeSerial

// Active reports whether a serialised simulation is running.
func Active() bool { return mode.Load() == ModeSerial }

// Config of one simulated run.
type Config struct {
	Sched      *Stream // scheduler choices
	MapSeed    uint64
	MapMode    int // 0 canonical, 1 reverse, 2 rotation, 3 shuffle per call, 4 shuffle per content
	LockYield  int // 0 no extra yield, 1 yield before write locks, 2 before every lock
	Bias       int // 0 uniform, 1 prefer lowest key (run-to-completion-ish), 2 prefer highest, 3 prefer continuing the last task
	MaxSteps   int
	MaxTasks   int
	Workers    int // worker count of IterMap
	FS         *FS
	Wait       func() // synctest.Wait
	KeepEvents bool
	Stdin      string
	// StdoutFault, when set, fails one Write call on the command's output writer (cmd.OutOrStdout()).
	StdoutFault *StdoutFault
	// OnFinish is called (once) at the moment the run's observable result is
	// fixed: the harness records how much has been written to stdout/stderr.
	OnFinish func()
}

const (
	stRunning = iota
	stStart
	stYield
	stAfterOp
	stChoose
	stLock
	stWG
	stExited
)

type wakeMsg struct {
	index int
	abort bool
}

type task struct {
	id       string
	goid     int64
	state    int
	wake     chan wakeMsg
	cases    []Case
	lockPtr  unsafe.Pointer
	lockW    bool
	children int
}

type lockState struct {
	w bool
	r int
}

// Outcome kinds of a run.
const (
	OutReturned = "returned" // root function returned
	OutExit     = "exit"     // os.Exit(n)
	OutPanic    = "panic"    // a panic other than the simulator's sentinels escaped a task
	OutDeadlock = "deadlock" // no enabled transition, root unfinished
	OutBudget   = "budget"   // step or task budget exhausted
	OutCrash    = "crash"    // injected machine crash (simfs)
	OutInfra    = "infra"    // simulator-internal trouble; never a property verdict
)

// StdoutFault: the Call-th Write (1-based) on the command's standard output fails. Kind "short"
// accepts the first N bytes (fewer than offered) and returns io.ErrShortWrite, "epipe" and "enospc"
// accept nothing. Sticky: every later Write fails too (a closed pipe, a full disk); otherwise the
// condition was transient and later writes succeed.
type StdoutFault struct {
	Call   int
	N      int
	Kind   string
	Sticky bool
}

type faultWriter struct {
	w io.Writer
	s *Sim
}

func (f *faultWriter) Write(p []byte) (int, error) {
	s, ft := f.s, f.s.cfg.StdoutFault
	s.stdoutCalls++
	if s.stdoutCalls == ft.Call || (ft.Sticky && s.stdoutCalls > ft.Call) {
		s.probe("stdout-fault-fired")
		n := 0
		var err error
		switch ft.Kind {
		case "short":
			err = io.ErrShortWrite
			if s.stdoutCalls == ft.Call {
				n = ft.N
				if n >= len(p) {
					n = len(p) - 1
				}
				if n < 0 {
					n = 0
				}
				if n > 0 {
					if m, werr := f.w.Write(p[:n]); werr != nil || m != n {
						panic("simrt: capture of standard output failed")
					}
				}
			}
		case "enospc":
			err = &os.PathError{Op: "write", Path: "/dev/stdout", Err: syscall.ENOSPC}
		default:
			err = &os.PathError{Op: "write", Path: "/dev/stdout", Err: syscall.EPIPE}
		}
		return n, err
	}
	return f.w.Write(p)
}

// WrapStdout replaces cmd.OutOrStdout() in instrumented code: the same writer, unless the run
// has a fault planned for standard output.
func WrapStdout(w io.Writer) io.Writer {
	if mode.Load() != ModeSerial || cur == nil || cur.cfg.StdoutFault == nil {
		return w
	}
	return &faultWriter{w: w, s: cur}
}

type Result struct {
	Outcome    string
	ExitCode   int
	PanicValue string
	PanicStack string
	Stdout     string
	Stderr     string
	Steps      int
	Tasks      int
	EventHash  uint64
	Events     []string
	Tape       []uint32
	Probes     map[string]int
	Leaked     int
	InfraMsg   string
	Budget     string        // which budget ended the run: "steps" or "tasks"
	SimTime    time.Duration // simulated time that passed (only when a task slept on the fake clock)
}

type Sim struct {
	mu       sync.Mutex
	cfg      Config
	tasks    []*task
	byGoid   map[int64]*task
	locks    map[unsafe.Pointer]*lockState
	wgs      map[unsafe.Pointer]int
	closed   map[unsafe.Pointer]bool
	mapCount map[string]int
	steps    int
	parks    int // number of park events (progress indicator)
	simTime  time.Duration
	sub      int // sub-step counter for Now(): distinct stamps inside one transition
	hash     uint64
	events   []string
	probes   map[string]int
	last     *task
	current  *task

	rootDone    bool
	aborting    bool
	done        bool // result snapshotted
	res         *Result
	stdout      []byte
	stdoutCalls int
	stderr      []byte
}

type abortSentinel struct{}
type exitSentinel struct{ code int }

// InfraPanic is raised by the simulator itself for conditions that are its
// own limitation (never a property verdict).
type InfraPanic struct{ Msg string }

func goid() int64 {
	var buf [64]byte
	n := runtime.Stack(buf[:], false)
	// "goroutine 123 ["
	b := buf[10:n]
	var id int64
	for _, c := range b {
		if c < '0' || c > '9' {
			break
		}
		id = id*10 + int64(c-'0')
	}
	return id
}

// me identifies the calling task. Exactly one task executes user code at a
// time, so the scheduler's record of whom it woke last is normally the
// answer; after a task exit (which may release a parent blocked in library
// code) the record is cleared and the goroutine id decides. With VerifyGoid
// every call is cross-checked against the goroutine id.
func (s *Sim) me() *task {
	s.mu.Lock()
	t := s.current
	s.mu.Unlock()
	if t != nil && !VerifyGoid {
		return t
	}
	g := goid()
	s.mu.Lock()
	t2 := s.byGoid[g]
	if t != nil && t2 != t {
		s.mu.Unlock()
		panic(InfraPanic{"simrt: current-task record disagrees with goroutine id"})
	}
	s.current = t2
	s.mu.Unlock()
	return t2
}

// VerifyGoid enables the (slow) cross-check in me().
var VerifyGoid = false

func (s *Sim) probe(name string) {
	s.mu.Lock()
	s.probes[name]++
	s.mu.Unlock()
}

// Probe counts a rare-branch hit (no-op without a simulation).
func Probe(name string) {
	if mode.Load() == ModeSerial {
		cur.probe(name)
	}
}

func (s *Sim) newTask(parent *task) *task {
	s.mu.Lock()
	defer s.mu.Unlock()
	t := &task{wake: make(chan wakeMsg, 1), state: stRunning}
	if parent == nil {
		t.id = "r"
	} else {
		t.id = parent.id + "." + strconv.Itoa(parent.children)
		parent.children++
	}
	s.tasks = append(s.tasks, t)
	return t
}

// park blocks the calling task until the scheduler wakes it.
func (s *Sim) park(t *task, st int) wakeMsg {
	s.mu.Lock()
	if s.aborting {
		s.mu.Unlock()
		panic(abortSentinel{})
	}
	t.state = st
	s.parks++
	s.mu.Unlock()
	m := <-t.wake
	if m.abort {
		panic(abortSentinel{})
	}
	return m
}

func (s *Sim) checkAbort() {
	s.mu.Lock()
	a := s.aborting
	s.mu.Unlock()
	if a {
		panic(abortSentinel{})
	}
}

// enter is called on the goroutine that starts executing task t.
func (s *Sim) enter(t *task) {
	g := goid()
	s.mu.Lock()
	t.goid = g
	s.byGoid[g] = t
	s.mu.Unlock()
	s.park(t, stStart)
}

// leave is called (deferred) when the task function returns or panics.
func (s *Sim) leave(t *task, r any) {
	s.mu.Lock()
	t.state = stExited
	s.parks++
	s.current = nil
	if s.byGoid[t.goid] == t {
		delete(s.byGoid, t.goid)
	}
	if t == s.tasks[0] {
		s.rootDone = true
	}
	if r != nil {
		switch v := r.(type) {
		case abortSentinel:
		case exitSentinel:
			s.finishLocked(OutExit, v.code, "", "")
		case InfraPanic:
			s.finishLocked(OutInfra, 0, "", "")
			s.res.InfraMsg = v.Msg
		default:
			if !s.done {
				s.finishLocked(OutPanic, 2, fmt.Sprint(unwrapPanic(r)), string(debug.Stack()))
			}
		}
	}
	s.mu.Unlock()
}

func unwrapPanic(r any) any {
	// conc wraps panics of pool tasks in *panics.Recovered; show the value.
	v := reflect.ValueOf(r)
	if v.Kind() == reflect.Ptr && !v.IsNil() && v.Elem().Kind() == reflect.Struct {
		if f := v.Elem().FieldByName("Value"); f.IsValid() && f.CanInterface() {
			return f.Interface()
		}
	}
	return r
}

// finishLocked snapshots the observable result and starts teardown.
func (s *Sim) finishLocked(outcome string, code int, pv, stack string) {
	if s.done {
		return
	}
	s.done = true
	s.aborting = true
	s.res.Outcome = outcome
	s.res.ExitCode = code
	s.res.PanicValue = pv
	s.res.PanicStack = stack
	s.res.Stdout = string(s.stdout)
	s.res.Stderr = string(s.stderr)
	if s.cfg.OnFinish != nil {
		s.cfg.OnFinish()
	}
	if s.cfg.FS != nil {
		s.cfg.FS.freeze()
	}
}

func (s *Sim) event(key string) {
	s.hash = Mix(s.hash, MixString(key))
	if s.cfg.KeepEvents {
		s.events = append(s.events, key)
	}
}

type transition struct {
	key     string
	t       *task
	index   int
	partner *task // rendezvous: sender
	pindex  int
}

func chanPtr(v reflect.Value) unsafe.Pointer { return v.UnsafePointer() }

// pollClosed reports whether a receive on ch would succeed because ch is
// closed. Only called when ch has no buffered element and no parked sender.
func (s *Sim) pollClosed(ch reflect.Value) bool {
	if s.closed[chanPtr(ch)] {
		return true
	}
	if ch.Type().ChanDir()&reflect.RecvDir == 0 {
		return false
	}
	i, v, ok := reflect.Select([]reflect.SelectCase{
		{Dir: reflect.SelectRecv, Chan: ch},
		{Dir: reflect.SelectDefault},
	})
	if i == 0 {
		if ok {
			panic(fmt.Sprintf("simrt: poll consumed a value %v from an uninstrumented sender", v))
		}
		s.closed[chanPtr(ch)] = true
		return true
	}
	return false
}

func (s *Sim) lockAvailable(p unsafe.Pointer, w bool) bool {
	ls := s.locks[p]
	if ls == nil {
		return true
	}
	if w {
		return !ls.w && ls.r == 0
	}
	return !ls.w
}

func (s *Sim) enabled() []transition {
	var ts []transition
	for _, t := range s.tasks {
		switch t.state {
		case stStart, stYield, stAfterOp:
			ts = append(ts, transition{key: t.id + ":go", t: t, index: -2})
		case stLock:
			if s.lockAvailable(t.lockPtr, t.lockW) {
				ts = append(ts, transition{key: t.id + ":lk", t: t, index: -2})
			}
		case stWG:
			if s.wgs[t.lockPtr] <= 0 {
				ts = append(ts, transition{key: t.id + ":wg", t: t, index: -2})
			}
		case stChoose:
			for i, c := range t.cases {
				if c.dir == dirRecv {
					if c.ch.Len() > 0 {
						ts = append(ts, transition{key: t.id + ":r" + strconv.Itoa(i), t: t, index: i})
						continue
					}
					found := false
					for _, u := range s.tasks {
						if u == t || u.state != stChoose {
							continue
						}
						for j, d := range u.cases {
							if d.dir == dirSend && chanPtr(d.ch) == chanPtr(c.ch) {
								found = true
								ts = append(ts, transition{key: t.id + ":r" + strconv.Itoa(i) + "<" + u.id, t: t, index: i, partner: u, pindex: j})
							}
						}
					}
					if !found && s.pollClosed(c.ch) {
						ts = append(ts, transition{key: t.id + ":x" + strconv.Itoa(i), t: t, index: i})
					}
				} else {
					if s.closed[chanPtr(c.ch)] || c.ch.Len() < c.ch.Cap() {
						ts = append(ts, transition{key: t.id + ":s" + strconv.Itoa(i), t: t, index: i})
					}
				}
			}
		}
	}
	sort.Slice(ts, func(i, j int) bool { return ts[i].key < ts[j].key })
	return ts
}

func (s *Sim) pick(ts []transition) transition {
	n := len(ts)
	switch s.cfg.Bias {
	case 1:
		// mostly the lowest key, preempt with probability 1/8
		if s.cfg.Sched.Draw(8) != 0 {
			return ts[0]
		}
	case 2:
		if s.cfg.Sched.Draw(8) != 0 {
			return ts[n-1]
		}
	case 3:
		if s.last != nil {
			for _, tr := range ts {
				if tr.t == s.last {
					if s.cfg.Sched.Draw(8) != 0 {
						return tr
					}
					break
				}
			}
		}
	}
	return ts[s.cfg.Sched.Draw(n)]
}

// Run executes root under the serialising scheduler. It must be called on the
// test goroutine of a synctest bubble; cfg.Wait must be synctest.Wait.
func Run(cfg Config, root func()) *Result {
	if cfg.MaxSteps == 0 {
		// generous: a report over years of daily periods legitimately takes tens of
		// thousands of transitions (days x pipeline stages x 2)
		cfg.MaxSteps = 400000
	}
	if cfg.MaxTasks == 0 {
		cfg.MaxTasks = 2000
	}
	if cfg.Workers == 0 {
		cfg.Workers = 4
	}
	s := &Sim{
		cfg:      cfg,
		byGoid:   map[int64]*task{},
		locks:    map[unsafe.Pointer]*lockState{},
		wgs:      map[unsafe.Pointer]int{},
		closed:   map[unsafe.Pointer]bool{},
		mapCount: map[string]int{},
		probes:   map[string]int{},
		res:      &Result{},
	}
	if cfg.FS != nil {
		cfg.FS.sim = s
	}
	cur = s
	resetPools()
	mode.Store(ModeSerial)
	defer func() {
		mode.Store(ModeOff)
		cur = nil
	}()

	rt := s.newTask(nil)
	go func() {
		defer func() { s.leave(rt, recover()) }()
		s.enter(rt)
		root()
	}()

	infra := func(msg string) {
		s.mu.Lock()
		s.finishLocked(OutInfra, 0, "", "")
		s.res.InfraMsg = msg
		s.mu.Unlock()
	}

	func() {
		defer func() {
			if r := recover(); r != nil {
				infra(fmt.Sprintf("scheduler panic: %v\n%s", r, debug.Stack()))
			}
		}()
		for {
			cfg.Wait()
			s.mu.Lock()
			if s.done {
				s.mu.Unlock()
				return
			}
			if s.rootDone {
				s.finishLocked(OutReturned, 0, "", "")
				s.mu.Unlock()
				return
			}
			if s.steps >= cfg.MaxSteps || len(s.tasks) > cfg.MaxTasks {
				s.res.Budget = "steps"
				if len(s.tasks) > cfg.MaxTasks {
					s.res.Budget = "tasks"
				}
				s.finishLocked(OutBudget, 0, "", "")
				s.mu.Unlock()
				return
			}
			ts := s.enabled()
			if len(ts) == 0 {
				// Nothing can be scheduled. A task may be asleep on the fake clock
				// (time.Sleep, a timer): let simulated time run by sleeping here, which
				// in a synctest bubble advances the clock to the next timer once every
				// goroutine is blocked. If nothing has moved afterwards, it is a deadlock.
				before := s.parks
				s.current = nil // whoever wakes up from the clock identifies itself by goroutine id
				s.mu.Unlock()
				time.Sleep(24 * time.Hour)
				cfg.Wait()
				s.mu.Lock()
				s.simTime += 24 * time.Hour
				moved := s.parks != before || s.done || s.rootDone
				if !moved {
					s.finishLocked(OutDeadlock, 0, "", "")
					s.mu.Unlock()
					return
				}
				s.probes["clock_advanced"]++
				s.mu.Unlock()
				continue
			}
			if len(ts) > 1 {
				dr := 0
				for _, tr := range ts {
					if tr.t.state == stChoose && len(tr.t.cases) > 1 {
						dr++
					}
				}
				if dr > 1 {
					// one task has more than one ready case?
					seen := map[*task]int{}
					for _, tr := range ts {
						if tr.t.state == stChoose {
							seen[tr.t]++
						}
					}
					for _, c := range seen {
						if c > 1 {
							s.probes["select_multi_ready"]++
							break
						}
					}
				}
			}
			tr := s.pick(ts)
			s.steps++
			s.sub = 0
			s.event(tr.key)
			s.last = tr.t
			tr.t.state = stRunning
			if tr.partner != nil {
				tr.partner.state = stRunning
				s.probes["rendezvous"]++
			}
			s.current = tr.t
			s.mu.Unlock()
			tr.t.wake <- wakeMsg{index: tr.index}
			if tr.partner != nil {
				cfg.Wait() // receiver is now blocked in the real receive
				s.mu.Lock()
				s.current = tr.partner
				s.mu.Unlock()
				tr.partner.wake <- wakeMsg{index: tr.pindex}
			}
		}
	}()

	// teardown: unwind every task that is still alive
	s.mu.Lock()
	s.current = nil
	s.mu.Unlock()
	for round := 0; round < 10000; round++ {
		cfg.Wait()
		s.mu.Lock()
		alive := 0
		var parked []*task
		for _, t := range s.tasks {
			if t.state == stExited {
				continue
			}
			alive++
			if t.state != stRunning {
				t.state = stRunning
				parked = append(parked, t)
			}
		}
		s.mu.Unlock()
		if alive == 0 {
			break
		}
		if len(parked) == 0 {
			// alive tasks are blocked outside simrt (library waits): leaked
			s.res.Leaked = alive
			break
		}
		for _, t := range parked {
			t.wake <- wakeMsg{abort: true}
		}
	}

	s.res.Steps = s.steps
	s.res.SimTime = s.simTime
	s.res.Tasks = len(s.tasks)
	s.res.EventHash = s.hash
	s.res.Events = s.events
	s.res.Tape = append([]uint32(nil), cfg.Sched.Tape()...)
	s.res.Probes = s.probes
	return s.res
}

// ---- task creation -------------------------------------------------------

// Task wraps a function value so that each call of the wrapper runs as a
// simulated task: identity is assigned here (in the parent), the task parks
// before its first statement and its exit is recorded.
func Task[F any](site string, f F) F {
	if mode.Load() != ModeSerial {
		if mode.Load() == ModePerturb {
			return perturbTask(site, f)
		}
		return f
	}
	s := cur
	parent := s.me()
	if parent == nil {
		return f
	}
	s.checkAbort()
	t := s.newTask(parent)
	fv := reflect.ValueOf(f)
	typ := fv.Type()
	w := reflect.MakeFunc(typ, func(args []reflect.Value) (results []reflect.Value) {
		defer func() {
			r := recover()
			s.leave(t, r)
			if r != nil {
				results = make([]reflect.Value, typ.NumOut())
				for i := range results {
					results[i] = reflect.Zero(typ.Out(i))
				}
			}
		}()
		s.enter(t)
		return fv.Call(args)
	})
	return w.Interface().(F)
}

// Yield is an explicit scheduling point.
func Yield(site string) {
	if mode.Load() != ModeSerial {
		if mode.Load() == ModePerturb {
			perturb(site)
		}
		return
	}
	s := cur
	t := s.me()
	if t == nil {
		return
	}
	s.park(t, stYield)
}

// ---- process exit and standard streams -----------------------------------

// Exit replaces os.Exit.
func Exit(code int) {
	if mode.Load() != ModeSerial {
		osExit(code)
		return
	}
	s := cur
	s.mu.Lock()
	s.finishLocked(OutExit, code, "", "")
	s.mu.Unlock()
	panic(abortSentinel{})
}

type stream struct{ fd int }

func (w stream) Write(p []byte) (int, error) {
	if w.fd == 1 {
		return realStdout().Write(p)
	}
	return realStderr().Write(p)
}

// Stdout and Stderr replace os.Stdout and os.Stderr in instrumented code.
var (
	Stdout = stream{1}
	Stderr = stream{2}
)
