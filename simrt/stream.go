package simrt

// Stream is the choice source of one simulated run. In search mode values come
// from a splitmix64 generator (implemented here so that it cannot change with a
// toolchain); every value drawn is recorded on a tape. In replay mode the tape
// is the source; when it is exhausted every further draw is 0, which makes
// "shorten the tape" and "zero an entry" valid shrinking moves.
type Stream struct {
	state  uint64
	replay bool
	tape   []uint32
	pos    int
	rec    []uint32
}

func splitmix(x *uint64) uint64 {
	*x += 0x9e3779b97f4a7c15
	z := *x
	z = (z ^ (z >> 30)) * 0xbf58476d1ce4e5b9
	z = (z ^ (z >> 27)) * 0x94d049bb133111eb
	return z ^ (z >> 31)
}

// Mix hashes a list of integers into one (used to derive sub-seeds).
func Mix(vs ...uint64) uint64 {
	var s uint64 = 0x243f6a8885a308d3
	for _, v := range vs {
		s ^= v
		_ = splitmix(&s)
		s = splitmix(&s)
	}
	return s
}

// MixString hashes a string (FNV-1a 64) for use with Mix.
func MixString(s string) uint64 {
	var h uint64 = 14695981039346656037
	for i := 0; i < len(s); i++ {
		h ^= uint64(s[i])
		h *= 1099511628211
	}
	return h
}

func NewStream(seed uint64) *Stream { return &Stream{state: seed} }

func ReplayStream(tape []uint32) *Stream { return &Stream{replay: true, tape: tape} }

// Draw returns a value in [0,n). n <= 1 draws nothing and returns 0.
func (s *Stream) Draw(n int) int {
	if n <= 1 {
		return 0
	}
	var v uint32
	if s.replay {
		if s.pos < len(s.tape) {
			v = s.tape[s.pos] % uint32(n)
		}
		s.pos++
	} else {
		v = uint32(splitmix(&s.state)>>33) % uint32(n)
	}
	s.rec = append(s.rec, v)
	return int(v)
}

// Tape returns the values drawn so far.
func (s *Stream) Tape() []uint32 { return s.rec }

// Rand is a plain seeded generator for workload generation (not taped).
type Rand struct{ s uint64 }

func NewRand(seed uint64) *Rand { return &Rand{s: seed} }
func (r *Rand) U64() uint64     { return splitmix(&r.s) }
func (r *Rand) Intn(n int) int {
	if n <= 1 {
		return 0
	}
	return int(r.U64()>>33) % n
}
func (r *Rand) Bool() bool       { return r.U64()&1 == 1 }
func (r *Rand) P(p float64) bool { return float64(r.U64()>>11)/float64(1<<53) < p }
func (r *Rand) Range(lo, hi int) int {
	if hi <= lo {
		return lo
	}
	return lo + r.Intn(hi-lo+1)
}
func (r *Rand) Perm(n int) []int {
	p := make([]int, n)
	for i := range p {
		p[i] = i
	}
	for i := n - 1; i > 0; i-- {
		j := r.Intn(i + 1)
		p[i], p[j] = p[j], p[i]
	}
	return p
}
func (r *Rand) Fork(tag uint64) *Rand { return NewRand(Mix(r.U64(), tag)) }
