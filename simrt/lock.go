package simrt

import (
	"sync"
	"unsafe"
)

type locker interface {
	Lock()
	Unlock()
	TryLock() bool
}

type rlocker interface {
	locker
	RLock()
	RUnlock()
}

func ptrOf(p any) unsafe.Pointer {
	switch v := p.(type) {
	case *sync.Mutex:
		return unsafe.Pointer(v)
	case *sync.RWMutex:
		return unsafe.Pointer(v)
	}
	return nil
}

func (s *Sim) acquire(site string, p unsafe.Pointer, w bool) bool {
	t := s.me()
	if t == nil {
		return false
	}
	if s.cfg.LockYield == 2 || (s.cfg.LockYield == 1 && w) {
		s.park(t, stYield)
	}
	for {
		s.mu.Lock()
		if s.lockAvailable(p, w) {
			ls := s.locks[p]
			if ls == nil {
				ls = &lockState{}
				s.locks[p] = ls
			}
			if w {
				ls.w = true
			} else {
				ls.r++
			}
			s.mu.Unlock()
			return true
		}
		s.probes["lock_contended"]++
		t.lockPtr, t.lockW = p, w
		s.mu.Unlock()
		s.park(t, stLock)
	}
}

func (s *Sim) release(p unsafe.Pointer, w bool) {
	s.mu.Lock()
	if ls := s.locks[p]; ls != nil {
		if w {
			ls.w = false
		} else if ls.r > 0 {
			ls.r--
		}
	}
	s.mu.Unlock()
}

// Lock replaces mu.Lock() for *sync.Mutex and *sync.RWMutex.
func Lock(site string, mu locker) {
	switch mode.Load() {
	case ModeSerial:
		cur.acquire(site, ptrOf(mu), true)
	case ModePerturb:
		perturb(site)
	}
	mu.Lock()
}

func Unlock(site string, mu locker) {
	mu.Unlock()
	if mode.Load() == ModeSerial {
		cur.release(ptrOf(mu), true)
	}
}

func RLock(site string, mu rlocker) {
	switch mode.Load() {
	case ModeSerial:
		cur.acquire(site, ptrOf(mu), false)
	case ModePerturb:
		perturb(site)
	}
	mu.RLock()
}

func RUnlock(site string, mu rlocker) {
	mu.RUnlock()
	if mode.Load() == ModeSerial {
		cur.release(ptrOf(mu), false)
	}
}

// ---- sync.WaitGroup used directly by instrumented code ------------------------

func WGAdd(site string, wg *sync.WaitGroup, n int) {
	if mode.Load() == ModeSerial {
		s := cur
		s.mu.Lock()
		s.wgs[unsafe.Pointer(wg)] += n
		s.mu.Unlock()
	}
	wg.Add(n)
}

func WGDone(site string, wg *sync.WaitGroup) {
	if mode.Load() == ModeSerial {
		s := cur
		s.mu.Lock()
		s.wgs[unsafe.Pointer(wg)]--
		s.mu.Unlock()
	}
	wg.Done()
}

func WGWait(site string, wg *sync.WaitGroup) {
	switch mode.Load() {
	case ModeSerial:
		s := cur
		if t := s.me(); t != nil {
			for {
				s.mu.Lock()
				n := s.wgs[unsafe.Pointer(wg)]
				t.lockPtr = unsafe.Pointer(wg)
				s.mu.Unlock()
				if n <= 0 {
					break
				}
				s.park(t, stWG)
			}
		}
	case ModePerturb:
		perturb(site)
	}
	wg.Wait()
}
