module knutsim/simrt

go 1.21
