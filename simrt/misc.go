package simrt

import (
	"errors"
	"fmt"
	"io"
	"log"
	"runtime"
	"runtime/pprof"
	"sync"
)

// StartCPUProfile / StopCPUProfile replace runtime/pprof's: under the simulator
// the profile is a one-line stub written to w (the real profiler starts a
// goroutine and uses signals, which have no place in a bubble).
func StartCPUProfile(w io.Writer) error {
	if mode.Load() == ModeSerial {
		_, err := io.WriteString(w, "knutsim: cpu profile stub\n")
		return err
	}
	return pprof.StartCPUProfile(w)
}

func StopCPUProfile() {
	if mode.Load() != ModeSerial {
		pprof.StopCPUProfile()
	}
}

// GOMAXPROCS and NumCPU replace the runtime functions: under the simulator the
// degree of parallelism a program asks about is the run's Workers knob.
func GOMAXPROCS(n int) int {
	if mode.Load() == ModeSerial && cur != nil {
		return cur.cfg.Workers
	}
	return runtime.GOMAXPROCS(n)
}

func NumCPU() int {
	if mode.Load() == ModeSerial && cur != nil {
		return cur.cfg.Workers
	}
	return runtime.NumCPU()
}

// IterMap replaces conc/iter.Map. Under the simulator the mapping runs on
// cfg.Workers simulated worker tasks that pull indices from a shared counter
// (what conc does with GOMAXPROCS goroutines); otherwise the original is called.
func IterMap[T, R any](site string, input []T, f func(*T) R, orig func([]T, func(*T) R) []R) []R {
	if mode.Load() != ModeSerial || cur.me() == nil {
		if mode.Load() == ModePerturb {
			perturb(site)
		}
		return orig(input, f)
	}
	res := make([]R, len(input))
	iterRun(site, len(input), func(i int) { res[i] = f(&input[i]) })
	return res
}

// IterForEach replaces conc/iter.ForEach.
func IterForEach[T any](site string, input []T, f func(*T), orig func([]T, func(*T))) {
	if mode.Load() != ModeSerial || cur.me() == nil {
		orig(input, f)
		return
	}
	iterRun(site, len(input), func(i int) { f(&input[i]) })
}

// IterMapErr replaces conc/iter.MapErr: the results in input order and the
// errors joined in the order in which the calls failed.
func IterMapErr[T, R any](site string, input []T, f func(*T) (R, error), orig func([]T, func(*T) (R, error)) ([]R, error)) ([]R, error) {
	if mode.Load() != ModeSerial || cur.me() == nil {
		if mode.Load() == ModePerturb {
			perturb(site)
		}
		return orig(input, f)
	}
	res := make([]R, len(input))
	var errs error
	iterRun(site, len(input), func(i int) {
		var err error
		res[i], err = f(&input[i])
		if err != nil {
			errs = errors.Join(errs, err) // only one task runs at a time
		}
	})
	return res, errs
}

// IterForEachIdx replaces conc/iter.ForEachIdx.
func IterForEachIdx[T any](site string, input []T, f func(int, *T), orig func([]T, func(int, *T))) {
	if mode.Load() != ModeSerial || cur.me() == nil {
		orig(input, f)
		return
	}
	iterRun(site, len(input), func(i int) { f(i, &input[i]) })
}

func iterRun(site string, n int, body func(i int)) {
	workers := cur.cfg.Workers
	if workers > n {
		workers = n
	}
	if workers <= 0 {
		return
	}
	next := 0
	done := make(chan struct{})
	for w := 0; w < workers; w++ {
		go Task(site, func() {
			for {
				i := next // only one task runs at a time
				if i >= n {
					break
				}
				next++
				body(i)
				Yield(site)
			}
			Send(site, done, struct{}{})
		})()
	}
	for w := 0; w < workers; w++ {
		Recv(site, done)
	}
}

func LogFatal(v ...any) {
	fmt.Fprint(Stderr, fmt.Sprint(v...)+"\n")
	Exit(1)
}
func LogFatalf(format string, v ...any) {
	fmt.Fprint(Stderr, fmt.Sprintf(format, v...)+"\n")
	Exit(1)
}
func LogFatalln(v ...any) {
	fmt.Fprint(Stderr, fmt.Sprintln(v...))
	Exit(1)
}
func LogPanic(v ...any) { s := fmt.Sprint(v...); fmt.Fprint(Stderr, s+"\n"); panic(s) }
func LogPanicf(format string, v ...any) {
	s := fmt.Sprintf(format, v...)
	fmt.Fprint(Stderr, s+"\n")
	panic(s)
}
func LogPanicln(v ...any) { s := fmt.Sprintln(v...); fmt.Fprint(Stderr, s); panic(s) }
func LogPrint(v ...any) {
	if mode.Load() != ModeSerial {
		log.Print(v...)
		return
	}
	fmt.Fprint(Stderr, fmt.Sprint(v...)+"\n")
}
func LogPrintf(format string, v ...any) {
	if mode.Load() != ModeSerial {
		log.Printf(format, v...)
		return
	}
	fmt.Fprint(Stderr, fmt.Sprintf(format, v...)+"\n")
}
func LogPrintln(v ...any) {
	if mode.Load() != ModeSerial {
		log.Println(v...)
		return
	}
	fmt.Fprint(Stderr, fmt.Sprintln(v...))
}

// Now returns the scheduler's global transition number (0 without a simulation):
// the event sequence number used to stamp recorded histories.
func Now() int64 {
	if mode.Load() != ModeSerial {
		return 0
	}
	s := cur
	s.mu.Lock()
	n := int64(s.steps)*1000 + int64(s.sub)
	s.sub++
	s.mu.Unlock()
	return n
}

// Pool replaces sync.Pool in instrumented code: a deterministic LIFO free list
// (sync.Pool's per-P caches and GC-driven eviction would make runs
// irreproducible). Handing back the most recently returned object is one of the
// behaviours sync.Pool may legally show.
type Pool struct {
	New   func() any
	mu    sync.Mutex
	items []any
}

// pools that hold objects: emptied when a simulated run starts, so that a run never
// sees what an earlier run in the same process left behind (a fresh process has empty pools)
var (
	poolsMu  sync.Mutex
	poolsAll = map[*Pool]bool{}
)

var syncMapsAll = map[*SyncMap]bool{}

func resetPools() {
	poolsMu.Lock()
	for m := range syncMapsAll {
		m.m = nil
	}
	syncMapsAll = map[*SyncMap]bool{}
	for p := range poolsAll {
		p.mu.Lock()
		p.items = nil
		p.mu.Unlock()
	}
	poolsAll = map[*Pool]bool{}
	poolsMu.Unlock()
}

func (p *Pool) Get() any {
	p.mu.Lock()
	if n := len(p.items); n > 0 {
		x := p.items[n-1]
		p.items = p.items[:n-1]
		p.mu.Unlock()
		return x
	}
	p.mu.Unlock()
	if p.New != nil {
		return p.New()
	}
	return nil
}

func (p *Pool) Put(x any) {
	if x == nil {
		return
	}
	p.mu.Lock()
	p.items = append(p.items, x)
	p.mu.Unlock()
	poolsMu.Lock()
	poolsAll[p] = true
	poolsMu.Unlock()
}

// SyncMap replaces sync.Map in instrumented code. Under the serialising
// scheduler only one task runs at a time, so a plain map is enough; every
// operation is a scheduling point (another task may run between two
// operations, never inside one: sync.Map's operations are atomic), and Range
// visits the keys in the run's seeded map order. In the other modes the real
// sync.Map does the work.
type SyncMap struct {
	real sync.Map
	m    map[any]any
}

func (s *SyncMap) serial() bool {
	if mode.Load() != ModeSerial || cur.me() == nil {
		return false
	}
	if s.m == nil {
		s.m = map[any]any{}
		// a package-level map lives as long as the process; a simulated run is a process
		poolsMu.Lock()
		syncMapsAll[s] = true
		poolsMu.Unlock()
	}
	Yield("sync.Map")
	return true
}

func (s *SyncMap) Load(key any) (any, bool) {
	if !s.serial() {
		return s.real.Load(key)
	}
	v, ok := s.m[key]
	return v, ok
}

func (s *SyncMap) Store(key, value any) {
	if !s.serial() {
		s.real.Store(key, value)
		return
	}
	s.m[key] = value
}

func (s *SyncMap) LoadOrStore(key, value any) (any, bool) {
	if !s.serial() {
		return s.real.LoadOrStore(key, value)
	}
	if v, ok := s.m[key]; ok {
		return v, true
	}
	s.m[key] = value
	return value, false
}

func (s *SyncMap) LoadAndDelete(key any) (any, bool) {
	if !s.serial() {
		return s.real.LoadAndDelete(key)
	}
	v, ok := s.m[key]
	delete(s.m, key)
	return v, ok
}

func (s *SyncMap) Delete(key any) {
	if !s.serial() {
		s.real.Delete(key)
		return
	}
	delete(s.m, key)
}

func (s *SyncMap) Swap(key, value any) (any, bool) {
	if !s.serial() {
		return s.real.Swap(key, value)
	}
	v, ok := s.m[key]
	s.m[key] = value
	return v, ok
}

func (s *SyncMap) CompareAndSwap(key, old, new any) bool {
	if !s.serial() {
		return s.real.CompareAndSwap(key, old, new)
	}
	if v, ok := s.m[key]; ok && v == old {
		s.m[key] = new
		return true
	}
	return false
}

func (s *SyncMap) CompareAndDelete(key, old any) bool {
	if !s.serial() {
		return s.real.CompareAndDelete(key, old)
	}
	if v, ok := s.m[key]; ok && v == old {
		delete(s.m, key)
		return true
	}
	return false
}

func (s *SyncMap) Clear() {
	if !s.serial() {
		s.real.Clear()
		return
	}
	s.m = map[any]any{}
}

func (s *SyncMap) Range(f func(key, value any) bool) {
	if !s.serial() {
		s.real.Range(f)
		return
	}
	for _, e := range MapRange("sync.Map.Range", s.m) {
		v, ok := s.m[e.K] // a key deleted meanwhile is not visited
		if !ok {
			continue
		}
		if !f(e.K, v) {
			return
		}
		Yield("sync.Map")
	}
}
