package simrt

import (
	"fmt"
	"log"
)

// IterMap replaces conc/iter.Map. Under the simulator the mapping runs on
// cfg.Workers simulated worker tasks that pull indices from a shared counter
// (what conc does with GOMAXPROCS goroutines); otherwise the original is called.
func IterMap[T, R any](site string, input []T, f func(*T) R, orig func([]T, func(*T) R) []R) []R {
	if mode.Load() != ModeSerial || cur.me() == nil {
		if mode.Load() == ModePerturb {
			perturb(site)
		}
		return orig(input, f)
	}
	res := make([]R, len(input))
	iterRun(site, len(input), func(i int) { res[i] = f(&input[i]) })
	return res
}

// IterForEach replaces conc/iter.ForEach.
func IterForEach[T any](site string, input []T, f func(*T), orig func([]T, func(*T))) {
	if mode.Load() != ModeSerial || cur.me() == nil {
		orig(input, f)
		return
	}
	iterRun(site, len(input), func(i int) { f(&input[i]) })
}

func iterRun(site string, n int, body func(i int)) {
	workers := cur.cfg.Workers
	if workers > n {
		workers = n
	}
	if workers <= 0 {
		return
	}
	next := 0
	done := make(chan struct{})
	for w := 0; w < workers; w++ {
		go Task(site, func() {
			for {
				i := next // only one task runs at a time
				if i >= n {
					break
				}
				next++
				body(i)
				Yield(site)
			}
			Send(site, done, struct{}{})
		})()
	}
	for w := 0; w < workers; w++ {
		Recv(site, done)
	}
}

func LogFatal(v ...any) {
	fmt.Fprint(Stderr, fmt.Sprint(v...)+"\n")
	Exit(1)
}
func LogFatalf(format string, v ...any) {
	fmt.Fprint(Stderr, fmt.Sprintf(format, v...)+"\n")
	Exit(1)
}
func LogFatalln(v ...any) {
	fmt.Fprint(Stderr, fmt.Sprintln(v...))
	Exit(1)
}
func LogPanic(v ...any)                 { s := fmt.Sprint(v...); fmt.Fprint(Stderr, s+"\n"); panic(s) }
func LogPanicf(format string, v ...any) { s := fmt.Sprintf(format, v...); fmt.Fprint(Stderr, s+"\n"); panic(s) }
func LogPanicln(v ...any)               { s := fmt.Sprintln(v...); fmt.Fprint(Stderr, s); panic(s) }
func LogPrint(v ...any) {
	if mode.Load() != ModeSerial {
		log.Print(v...)
		return
	}
	fmt.Fprint(Stderr, fmt.Sprint(v...)+"\n")
}
func LogPrintf(format string, v ...any) {
	if mode.Load() != ModeSerial {
		log.Printf(format, v...)
		return
	}
	fmt.Fprint(Stderr, fmt.Sprintf(format, v...)+"\n")
}
func LogPrintln(v ...any) {
	if mode.Load() != ModeSerial {
		log.Println(v...)
		return
	}
	fmt.Fprint(Stderr, fmt.Sprintln(v...))
}
