package simrt

import (
	"os"
	"reflect"
	"runtime"
	"sync/atomic"
)

const (
	dirRecv = 0
	dirSend = 1
)

// Case describes one communication clause of a select for the scheduler.
type Case struct {
	dir int
	ch  reflect.Value
}

func RecvCase(ch any) Case { return Case{dirRecv, reflect.ValueOf(ch)} }
func SendCase(ch any) Case { return Case{dirSend, reflect.ValueOf(ch)} }

// Handle is what Choose returns: Index is the clause the scheduler picked
// (-1: no simulation, execute the original statement).
type Handle struct {
	Index int
	t     *task
}

// Done parks the task right after the real channel operation so that the two
// partners of a rendezvous never run user code at the same time.
func (h Handle) Done() {
	if h.t == nil {
		return
	}
	cur.park(h.t, stAfterOp)
}

// Choose parks the calling task until the scheduler has picked one ready
// clause for it.
func Choose(site string, hasDefault bool, cases ...Case) Handle {
	m := mode.Load()
	if m != ModeSerial {
		if m == ModePerturb {
			perturb(site)
		}
		return Handle{Index: -1}
	}
	s := cur
	t := s.me()
	if t == nil {
		return Handle{Index: -1}
	}
	if hasDefault {
		// a select with a default never blocks: make it a scheduling point and
		// run the original statement.
		s.park(t, stYield)
		return Handle{Index: -1}
	}
	live := cases[:0:0]
	idx := make([]int, 0, len(cases))
	for i, c := range cases {
		if c.ch.IsValid() && c.ch.Kind() == reflect.Chan && !c.ch.IsNil() {
			live = append(live, c)
			idx = append(idx, i)
		}
	}
	s.mu.Lock()
	t.cases = live
	s.mu.Unlock()
	msg := s.park(t, stChoose)
	return Handle{Index: idx[msg.index], t: t}
}

// Recv replaces a bare receive expression.
func Recv[T any](site string, ch <-chan T) T {
	h := Choose(site, false, RecvCase(ch))
	v := <-ch
	h.Done()
	return v
}

// RecvOk replaces `v, ok := <-ch` and the head of `for v := range ch`.
func RecvOk[T any](site string, ch <-chan T) (T, bool) {
	h := Choose(site, false, RecvCase(ch))
	v, ok := <-ch
	h.Done()
	return v, ok
}

// Send replaces a bare send statement.
func Send[T any](site string, ch chan<- T, v T) {
	h := Choose(site, false, SendCase(ch))
	ch <- v
	h.Done()
}

// Close replaces close(ch).
func Close(site string, ch any) {
	v := reflect.ValueOf(ch)
	if mode.Load() == ModeSerial {
		s := cur
		s.mu.Lock()
		s.closed[chanPtr(v)] = true
		s.mu.Unlock()
	}
	v.Close()
	// a scheduling point right after the close: a receiver may see the closed channel before the
	// closing task does anything else (its next step may be a synchronisation inside an
	// uninstrumented library, context.CancelFunc for one, which the scheduler would not see)
	Yield(site)
}

// ---- perturb mode (engine R) -------------------------------------------------

var perturbSeed uint64
var perturbCount [256]atomic.Uint32

// StartPerturb switches to perturb mode: real goroutines, seeded Gosched calls
// at every instrumented point, permuted map iteration.
func StartPerturb(seed uint64, mapMode int) {
	perturbSeed = seed
	perturbMapMode = mapMode
	mode.Store(ModePerturb)
}

var perturbMapMode int

func perturb(site string) {
	h := MixString(site)
	c := perturbCount[h&255].Add(1)
	n := Mix(perturbSeed, h, uint64(c)) % 4
	for i := uint64(0); i < n; i++ {
		runtime.Gosched()
	}
}

func perturbTask[F any](site string, f F) F {
	fv := reflect.ValueOf(f)
	w := reflect.MakeFunc(fv.Type(), func(args []reflect.Value) []reflect.Value {
		perturb(site)
		return fv.Call(args)
	})
	return w.Interface().(F)
}

func osExit(code int)      { os.Exit(code) }
func realStdout() *os.File { return os.Stdout }
func realStderr() *os.File { return os.Stderr }
