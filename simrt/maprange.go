package simrt

import (
	"fmt"
	"reflect"
	"sort"
	"strconv"
	"time"
	"unsafe"
)

// Entry is one element of a simulated map iteration. The value is read from
// the live map when the element is reached, and an entry deleted meanwhile is
// skipped, as the Go specification requires.
type Entry[M ~map[K]V, K comparable, V any] struct {
	K K
	m M
}

func (e Entry[M, K, V]) Val() (V, bool) {
	v, ok := e.m[e.K]
	return v, ok
}

// MapZero returns the zero key and value of m's type: the instrumenter declares the
// iteration variables of a rewritten map range with it, once and outside the loop, in
// modules whose go.mod predates per-iteration loop variables (go < 1.22).
func MapZero[M ~map[K]V, K comparable, V any](m M) (k K, v V) { return }

// MapRange returns the entries of m in the order the run's map-order stream
// dictates. Without a simulation the order is Go's own.
func MapRange[M ~map[K]V, K comparable, V any](site string, m M) []Entry[M, K, V] {
	es := make([]Entry[M, K, V], 0, len(m))
	for k := range m {
		es = append(es, Entry[M, K, V]{K: k, m: m})
	}
	md := mode.Load()
	if md == ModeOff || len(es) < 2 {
		return es
	}
	var seed uint64
	var mm int
	var count int
	if md == ModeSerial {
		s := cur
		s.mu.Lock()
		seed, mm = s.cfg.MapSeed, s.cfg.MapMode
		s.mapCount[site]++
		count = s.mapCount[site]
		s.probes["map_ranges"]++
		s.mu.Unlock()
	} else {
		seed, mm = perturbSeed, perturbMapMode
		count = int(perturbCount[MixString(site)&255].Add(1))
	}
	keys := make([]string, len(es))
	for i := range es {
		keys[i] = Canon(reflect.ValueOf(&es[i].K).Elem())
	}
	idx := make([]int, len(es))
	for i := range idx {
		idx[i] = i
	}
	sort.SliceStable(idx, func(a, b int) bool { return keys[idx[a]] < keys[idx[b]] })
	for i := 1; i < len(idx); i++ {
		if keys[idx[i]] == keys[idx[i-1]] && md == ModeSerial {
			// two distinct keys that render alike (for example two objects with
			// the same name): they keep Go's own relative order; counted, because
			// such a run may not replay exactly
			Probe("map_keys_render_alike")
			break
		}
	}
	n := len(idx)
	switch mm {
	case 0:
	case 1:
		for i, j := 0, n-1; i < j; i, j = i+1, j-1 {
			idx[i], idx[j] = idx[j], idx[i]
		}
	case 2:
		r := int(Mix(seed, MixString(site), uint64(count)) % uint64(n))
		rot := append(append([]int(nil), idx[r:]...), idx[:r]...)
		idx = rot
	case 3:
		st := Mix(seed, MixString(site), uint64(count))
		for i := n - 1; i > 0; i-- {
			j := int(splitmix(&st)>>33) % (i + 1)
			idx[i], idx[j] = idx[j], idx[i]
		}
	default: // per content: order by keyed hash of the canonical key
		hs := make(map[int]uint64, n)
		for _, i := range idx {
			hs[i] = Mix(seed, MixString(site), MixString(keys[i]))
		}
		sort.SliceStable(idx, func(a, b int) bool { return hs[idx[a]] < hs[idx[b]] })
	}
	out := make([]Entry[M, K, V], n)
	for i, j := range idx {
		out[i] = es[j]
	}
	return out
}

var timeType = reflect.TypeOf(time.Time{})

type named interface{ Name() string }

// Canon renders a map key canonically, independent of addresses.
func Canon(v reflect.Value) string {
	if !v.IsValid() {
		return "<nil>"
	}
	if v.Type() == timeType {
		t := access(v).Interface().(time.Time)
		return "t" + strconv.FormatInt(t.Unix(), 10) + "." + strconv.Itoa(t.Nanosecond())
	}
	switch v.Kind() {
	case reflect.String:
		return "s" + v.String()
	case reflect.Int, reflect.Int8, reflect.Int16, reflect.Int32, reflect.Int64:
		return fmt.Sprintf("i%020d", uint64(v.Int())+(1<<63))
	case reflect.Uint, reflect.Uint8, reflect.Uint16, reflect.Uint32, reflect.Uint64, reflect.Uintptr:
		return fmt.Sprintf("u%020d", v.Uint())
	case reflect.Bool:
		if v.Bool() {
			return "b1"
		}
		return "b0"
	case reflect.Float32, reflect.Float64:
		return fmt.Sprintf("f%v", v.Float())
	case reflect.Ptr, reflect.Interface:
		if v.IsNil() {
			return "p<nil>"
		}
		a := access(v)
		if a.CanInterface() {
			if n, ok := a.Interface().(named); ok {
				return "n" + n.Name()
			}
		}
		if v.Kind() == reflect.Interface {
			return "I" + Canon(v.Elem())
		}
		e := v.Elem()
		if e.Kind() == reflect.Struct {
			// a struct with a Date field (journal.Day) or a Name/name field
			for _, fn := range []string{"Date", "Name", "name", "Segment"} {
				if f := e.FieldByName(fn); f.IsValid() {
					return "P" + Canon(f)
				}
			}
		}
		panic(InfraPanic{fmt.Sprintf("simrt: no canonical rendering for map key type %s", v.Type())})
	case reflect.Struct:
		s := "{"
		for i := 0; i < v.NumField(); i++ {
			s += Canon(v.Field(i)) + "\x1f"
		}
		return s + "}"
	case reflect.Array:
		s := "["
		for i := 0; i < v.Len(); i++ {
			s += Canon(v.Index(i)) + "\x1f"
		}
		return s + "]"
	}
	panic(InfraPanic{fmt.Sprintf("simrt: no canonical rendering for map key type %s", v.Type())})
}

// access makes an unexported field readable through Interface().
func access(v reflect.Value) reflect.Value {
	if v.CanInterface() {
		return v
	}
	if v.CanAddr() {
		return reflect.NewAt(v.Type(), unsafe.Pointer(v.UnsafeAddr())).Elem()
	}
	// copy into addressable storage
	c := reflect.New(v.Type()).Elem()
	switch v.Kind() {
	case reflect.Ptr:
		c = reflect.NewAt(v.Type(), unsafe.Pointer(&[]unsafe.Pointer{v.UnsafePointer()}[0])).Elem()
	}
	return c
}
